"""C10 — no well-formed session corrupts memory.

Partial, by obligations: every subscript into a fixed-extent buffer declared
in the engine (C arrays and std::array) is put through an interval analysis
of the *release* configuration (asserts do not exist): whole-program
parameter-interval propagation + intraprocedural widening/narrowing +
context-sensitive callee evaluation. Sites the intervals cannot discharge are
matched against a closed list of named obligations (B-rules), each with its
own structural argument and, where a chess fact is needed, a named
assumption. A site that is neither is a violation. Heap containers
(std::vector/map/string) are size-tracked by the library and not decided."""
import math
import re

from facts import AnalysisBroken
from prog import walk, kids, short, access_kind
from rules.common import strip_casts, const_of, guard_facts, local_writes, counting_for, written_value
from rules.effects import canon, single_def
from prog import walk as _walk
from rules.interval import Intervals, hull, TOP

LEVEL = 'proof'
EXPLANATION = ('Obligation list: one obligation per (function instantiation, subscript site) with a fixed extent; '
               'discharged by interval analysis (release configuration) or by a named structural rule; plus stack-depth, '
               'generated-list-capacity and uninitialised-use obligations. Heap containers are not decided.')

POS = 'engine::Position'


def _from_new_code(p, f, e, depth=0):
    """the expression is computed (through its locals' definitions) from a local or a helper the reference tree did not have"""
    fl = getattr(f, 'frozen_locals', None)
    if fl is None or depth > 4 or e is None:
        return False
    for x in walk(e):
        r = x.get('ref') or {}
        if r.get('k') == 'Binding':
            return True             # a structured binding: the reference tree had none
        if r.get('k') == 'Local':
            if r['n'] not in fl:
                return True
            for d in f.all_nodes():
                if d['k'] == 'VarDecl' and d.get('id') == r['id'] and kids(d) and _from_new_code(p, f, kids(d)[0], depth + 1):
                    return True
        g = p.funcs.get((x.get('callee') or {}).get('fid')) if x.get('callee') else None
        if g is not None and p.is_new_function(g):
            return True
    return False


def _site_info(f, n):
    if n.get('callee', {}).get('n') == 'engine::square_bb':
        return 'square_bb', 64, kids(n)[1], 'shift'
    if n['k'] == 'ArraySubscriptExpr':
        b = kids(n)[0]
        if b['k'] == 'ImplicitCastExpr' and b.get('ck') == 'ArrayToPointerDecay':
            b = kids(b)[0]
        m = re.search(r'\[(\d+)\]', b.get('t', ''))
        ext = int(m.group(1)) if m else None
        return canon(f, b, inline=False), ext, kids(n)[1], ('ptr' if ext is None and '*' in (b.get('t') or '') else 'arr')
    obj = kids(n)[1]
    t = strip_casts(obj).get('ct') or strip_casts(obj).get('t', '')
    m = re.match(r'(const )?std::array<(.*), (\d+)>$', t)
    ext = int(m.group(3)) if m else None
    kind = 'stdarray' if m else ('heap:' + re.sub(r'<.*', '', t.replace('const ', '')))
    return canon(f, obj, inline=False), ext, kids(n)[2], kind


def _bitscan_range(iv, fn, e, args, vals, env):
    """lsb/msb/pop_lsb: [0,63] when the operand is known non-zero at the call, else [-1,63]"""
    a = strip_casts(args[0]) if args else None
    if a is None:
        return (-1, 63)
    if a['k'] == 'UnaryOperator' and a.get('op') in ('&', '*'):
        a = strip_casts(kids(a)[0])
    r = a.get('ref', {})
    if r.get('k') not in ('Local', 'Parm'):
        return (-1, 63)
    vid = r['id']
    c = fn.cfg
    for cond, k, termk, blk in c.guards(e):
        from rules.common import norm_cond
        cn, neg = norm_cond(cond)
        truth = (k == 0) != neg
        cn = strip_casts(cn)
        allow = None
        if cn.get('ref', {}).get('id') == vid and truth:
            allow = 0
        elif cn['k'] == 'BinaryOperator' and cn.get('op') in ('!=', '==') and \
                strip_casts(kids(cn)[0]).get('ref', {}).get('id') == vid and const_of(strip_casts(kids(cn)[1])) == 0 and \
                ((cn['op'] == '!=') == truth):
            allow = 0
        elif short(cn.get('callee', {}).get('n', '')) == 'popcount_more_than_one' and truth and \
                strip_casts(kids(cn)[1]).get('ref', {}).get('id') == vid:
            allow = 1
        elif short(cn.get('callee', {}).get('n', '')) == 'popcount' and truth and \
                strip_casts(kids(cn)[1]).get('ref', {}).get('id') == vid:
            allow = 0
        if allow is None:
            continue
        # writes to the operand between the guard and the scan
        between = 0
        arbitrary = False
        gpos = (blk, len(c.blocks[blk]['el']) - 1)
        for w in local_writes(fn, vid):
            if w['i'] == a['i']:
                continue
            # is w itself the pop_lsb(&x) of this very call?
            if fn.inside(w, e):
                continue
            wp = c.position(w)
            if wp is None:
                continue
            if c.path_avoiding(gpos, {cond['i']}, {w['i']}) is not None and \
                    c.path_avoiding(wp, {cond['i']}, {e['i']}) is not None:
                between += 1
                par = fn.parent(w)
                # removals keep the set non-empty only under the >=2 guard
                if par is not None and par['k'] in ('BinaryOperator',) and par.get('op') == '=':
                    arbitrary = True
        if not arbitrary and between <= allow:
            return (0, 63)
    return (-1, 63)


# Buffers of which the reference tree keeps a pointer (array decay not immediately subscripted, &buf[i], array::data()):
# every one of them is covered by a named rule below (list windows B5/B7/B8, pin list B10, PV copy B4, stack frames B3,
# counter-move slots, reader buffer C19.R2, constructor memset/fill). A pointer into any OTHER fixed-extent buffer is an
# access path no rule bounds: analysis-broken, never a silent pass.
POINTER_BASES = {'data_', 'PINS', 'MOVE_LIST', 'TEMP_MOVE_LIST', 'entry', '_board', '_piece_count', '_by_piece_kind_bb',
                 '_by_color_bb', 'movelist', 'moves', '_pv_list', 'historyScore', '_counter_move', 'searchmoves',
                 '_stack_info', '_counter_move_table', 'previous_moves'}


def _window(ctx, p, f, n, inner, iv):
    """`T* const b = ARR[row];  T* const e = b + k;  T* const r = std::find(b, e, v);  if (r != e) *r ...` — a window over one
    row of a fixed-extent array: k within [0, extent], the algorithm's result lies in [b, e], and it is dereferenced only where it
    differs from e. Returns True when every use of the three pointers is of this kind (None: not this shape)."""
    par = f.parent(n)
    while par is not None and par['k'] in ('ImplicitCastExpr', 'ParenExpr'):
        par = f.parent(par)
    if par is None or par['k'] != 'VarDecl' or 'const' not in (par.get('t') or '').split('*')[-1]:
        return None
    m = re.search(r'\[(\d+)\]$', (inner.get('t') or ''))
    if not m:
        return None
    ext = int(m.group(1))
    bid = par['id']

    def uses(vid):
        return [x for x in f.all_nodes() if x['k'] == 'DeclRefExpr' and (x.get('ref') or {}).get('k') == 'Local' and x['ref'].get('id') == vid]

    def up(x):
        q = f.parent(x)
        while q is not None and q['k'] in ('ImplicitCastExpr', 'ParenExpr'):
            x, q = q, f.parent(q)
        return x, q
    ends, results = set(), {}
    pending = []
    for u in uses(bid):
        x, q = up(u)
        if q is None:
            return None
        if q['k'] == 'BinaryOperator' and q.get('op') == '+' and kids(q)[0] is x:
            x2, q2 = up(q)
            if q2 is not None and q2['k'] == 'VarDecl' and 'const' in (q2.get('t') or '').split('*')[-1]:
                itv = iv.eval(f, kids(q)[1], {}, 0)
                if itv is None or itv[0] < 0 or itv[1] > ext:
                    return False
                ends.add(q2['id'])
                continue
            return None
        if q['k'] == 'CallExpr' and (q.get('callee') or {}).get('n', '').startswith('std::find') and kids(q)[1] is x:
            pending.append(q)
            continue
        if q['k'] == 'BinaryOperator' and q.get('op') in ('==', '!='):
            continue
        return None
    for call in pending:
        e2 = strip_casts(kids(call)[2])
        if (e2.get('ref') or {}).get('id') not in ends:
            return None
        x2, q2 = up(call)
        if q2 is None or q2['k'] != 'VarDecl' or 'const' not in (q2.get('t') or '').split('*')[-1]:
            return None
        results[q2['id']] = e2['ref']['id']
    def differs(node, eid):
        for c_, t_ in guard_facts(f, node):
            c0 = strip_casts(c_)
            if c0['k'] == 'BinaryOperator' and c0.get('op') in ('==', '!='):
                ids = sorted((strip_casts(y).get('ref') or {}).get('id', -1) for y in kids(c0))
                if any(ids == sorted([rid, eid]) for rid, e_ in results.items() if e_ == eid) and (c0['op'] == '!=') == t_:
                    return True
        return False
    for eid in ends:
        for u in uses(eid):
            x, q = up(u)
            if q is not None and q['k'] == 'BinaryOperator' and q.get('op') == '-' and kids(q)[0] is x and \
                    const_of(strip_casts(kids(q)[1])) == 1:
                # *(e - 1): the last element, where some position in [b, e) differs from e (the window is not empty)
                x2, q2 = up(q)
                if q2 is not None and q2['k'] == 'UnaryOperator' and q2.get('op') == '*':
                    if not differs(q2, eid):
                        return False
                    continue
                return None
            if q is None or not ((q['k'] == 'CallExpr' and q in pending and kids(q)[2] is x) or
                                 (q['k'] == 'BinaryOperator' and q.get('op') in ('==', '!='))):
                return None
    for rid, eid in results.items():
        for u in uses(rid):
            x, q = up(u)
            if q is None:
                return None
            if q['k'] == 'BinaryOperator' and q.get('op') in ('==', '!='):
                continue
            if q['k'] == 'UnaryOperator' and q.get('op') == '*':
                ok = False
                for c_, t_ in guard_facts(f, q):
                    c0 = strip_casts(c_)
                    if c0['k'] == 'BinaryOperator' and c0.get('op') in ('==', '!='):
                        ids = sorted((strip_casts(y).get('ref') or {}).get('id', -1) for y in kids(c0))
                        if ids == sorted([rid, eid]) and (c0['op'] == '!=') == t_:
                            ok = True
                if not ok:
                    return False
                continue
            return None
    return bool(ends) and bool(results)


def _single_element_pointer(p, f, e, depth=0):
    """`e` is a pointer to ONE element of a container (&data_[i] with i in range). Follows it through pointer locals, returns
    and callers: it may be dereferenced, compared, copied and returned; arithmetic on it, subscripting it or stepping it leaves the
    element. Returns (ok, where/why) — None for a use the rule does not know."""
    if depth > 4:
        return None, 'too deep'
    cur, par = e, f.parent(e)
    while par is not None and par['k'] in ('ImplicitCastExpr', 'ParenExpr', 'ExprWithCleanups'):
        cur, par = par, f.parent(par)
    if par is None:
        return True, ''
    k = par['k']
    if k == 'MemberExpr' or (k == 'UnaryOperator' and par.get('op') in ('*', '!')):
        return True, ''
    if k == 'BinaryOperator' and par.get('op') in ('==', '!=', '&&', '||'):
        return True, ''
    if k in ('IfStmt', 'WhileStmt', 'ConditionalOperator') and kids(par)[0] is cur:
        return True, ''
    if (k == 'BinaryOperator' and par.get('op') in ('+', '-', '<', '>', '<=', '>=')) or k == 'ArraySubscriptExpr' or \
            (k == 'UnaryOperator' and par.get('op') in ('++', '--')) or (k == 'CompoundAssignOperator'):
        return False, 'pointer arithmetic at %s' % f.loc(par)
    if k == 'ReturnStmt':
        for h, call in p.callers_of(f.name):
            r = _single_element_pointer(p, h, call, depth + 1)
            if r[0] is not True:
                return r
        return True, ''
    vid = None
    if k == 'VarDecl':
        vid = par['id']
    elif k == 'BinaryOperator' and par.get('op') == '=' and kids(par)[1] is cur:
        vid = (strip_casts(kids(par)[0]).get('ref') or {}).get('id')
        if (strip_casts(kids(par)[0]).get('ref') or {}).get('k') != 'Local':
            return None, 'stored at %s' % f.loc(par)
    if vid is not None:
        for u in f.all_nodes():
            if u['k'] == 'DeclRefExpr' and (u.get('ref') or {}).get('k') == 'Local' and u['ref'].get('id') == vid:
                up_ = f.parent(u)
                if up_ is not None and up_['k'] == 'BinaryOperator' and up_.get('op') == '=' and strip_casts(kids(up_)[0]) is u:
                    continue            # the local is assigned here
                r = _single_element_pointer(p, f, u, depth + 1)
                if r[0] is not True:
                    return r
        return True, ''
    if k in ('CallExpr', 'CXXMemberCallExpr', 'CXXOperatorCallExpr'):
        g = p.funcs.get((par.get('callee') or {}).get('fid'))
        args = kids(par)[1:]
        pos = next((i for i, a in enumerate(args) if a is cur), None)
        if g is not None and g.body is not None and pos is not None and pos < len(g.params):
            pid = g.params[pos]['id']
            for u in g.all_nodes():
                if u['k'] == 'DeclRefExpr' and (u.get('ref') or {}).get('k') == 'Parm' and u['ref'].get('id') == pid:
                    r = _single_element_pointer(p, g, u, depth + 1)
                    if r[0] is not True:
                        return r
            return True, ''
        return None, 'passed to %s at %s' % ((par.get('callee') or {}).get('n'), f.loc(par))
    return None, '%s at %s' % (k, f.loc(par))


def _pointer_escapes(ctx, p, funcs, iv=None):
    n_sites = 0
    for f in funcs:
        if f.body is None:
            continue
        for n in f.all_nodes():
            inner = None
            if n['k'] == 'ImplicitCastExpr' and n.get('ck') == 'ArrayToPointerDecay':
                par = f.parent(n)
                if par is not None and par['k'] == 'ArraySubscriptExpr' and kids(par)[0] is n:
                    continue
                inner = kids(n)[0]
                if any(x['k'] in ('StringLiteral', 'PredefinedExpr') for x in walk(inner)):
                    continue
            elif n['k'] == 'UnaryOperator' and n.get('op') == '&':
                x = kids(n)[0]
                if x['k'] == 'ArraySubscriptExpr' or (x['k'] == 'CXXOperatorCallExpr' and x.get('op') == '[]'):
                    inner = x
                    # the address of one element picked by a constant inside the extent, of scalar type: a pointer to that
                    # scalar, not a way into the rest of the buffer unless arithmetic is done on it (no such use is known)
                    if x['k'] == 'ArraySubscriptExpr':
                        ci = const_of(strip_casts(kids(x)[1]))
                        bt = (strip_casts(kids(x)[0]).get('t') or '') if kids(x) else ''
                        bt = bt or (kids(kids(x)[0])[0].get('t') if kids(x)[0]['k'] == 'ImplicitCastExpr' and kids(kids(x)[0]) else '')
                        m_ = re.search(r'\[(\d+)\]$', bt or '')
                        if ci is not None and m_ and 0 <= ci < int(m_.group(1)) and '[' not in (x.get('t') or ''):
                            inner = None
            elif n['k'] == 'CXXMemberCallExpr' and short((n.get('callee') or {}).get('n', '')) == 'data' and \
                    'std::array' in n['callee']['n']:
                inner = n
            if inner is None:
                continue
            # the begin/end pointers the compiler makes for `for (x : array)`: end is begin plus the array's own extent, the body
            # cannot name them, the walk stays inside the array
            if any(a['k'] == 'VarDecl' and re.match(r'__(begin|end)\d+$', a.get('name') or '') for a in f.ancestors(n)) and \
                    any(a['k'] == 'CXXForRangeStmt' for a in f.ancestors(n)) and \
                    all((x.get('ref') or {}).get('n', '').startswith('__range') for x in walk(inner) if (x.get('ref') or {}).get('k') == 'Local'):
                continue
            # a pointer that only serves to compute an index (`std::max_element(a + i, a + n) - a`): the difference is an
            # integer, no pointer survives the expression; the subscript made with that index is an ordinary site
            if any(a['k'] == 'BinaryOperator' and a.get('op') == '-' and (a.get('t') or '') in ('long', 'std::ptrdiff_t', 'ptrdiff_t', 'int')
                   for a in f.ancestors(n)):
                continue
            n_sites += 1
            names = [short(x['ref']['n']) for x in walk(inner) if x.get('ref', {}).get('k') in ('Field', 'Global', 'StaticMember', 'Local', 'Parm')]
            if 'data_' in names and n['k'] == 'UnaryOperator':
                # &data_[i]: a pointer to one slot of the hash table; it must stay on that slot
                ok_, why_ = _single_element_pointer(p, f, n)
                if ok_ is None:
                    raise AnalysisBroken('C10: the pointer to a hash-table slot formed at %s is used in a way the rule does not follow (%s)'
                                         % (f.loc(n), why_))
                ctx.ob('C10.PTR.slot', '%s:%s' % (short(f.name), canon(f, inner, inline=False)[:60]), ok_,
                       'a pointer to one slot of the table is dereferenced, compared, copied or returned, never moved off the slot%s'
                       % ('' if ok_ else ' — ' + why_), site=f.loc(n), sample=False)
                continue
            if not any(nm in POINTER_BASES for nm in names):
                w = _window(ctx, p, f, n, inner, iv) if iv is not None else None
                if w is not None:
                    ctx.ob('C10.PTR.window', '%s:%s' % (short(f.name), canon(f, inner, inline=False)), w,
                           'a window [b, b+k) over one row of a fixed-extent array with k within the extent; the position returned by '
                           'the algorithm is dereferenced only where it differs from the end', site=f.loc(n))
                    continue
                raise AnalysisBroken('C10: a pointer into %s is formed at %s; no rule bounds the accesses made through it'
                                     % (canon(f, inner, inline=False), f.loc(n)))
    ctx.floor('C10.PTR.escapes', n_sites, 30, 'pointers formed into fixed-extent buffers')


def check(ctx):
    p = ctx.prog()
    maxd = p.val('engine::MAX_DEPTH')
    maxm = p.val('engine::MAX_MOVES')
    enum = {k: p.enum('engine::' + k) for k in ('PieceKind', 'Piece', 'Square', 'Ray')}

    # ---- derived facts from other rules (stack depth, PV length) --------------------------------------
    stack = _stack_depth(ctx, p, maxd)          # B3: max ply, extent of the search stack
    max_ply = stack['max_ply']

    fields = {
        # A-LIST / A-PC: piece lists hold valid squares, at most ten pieces of a kind
        'engine::Position::_piece_count': (0, 10),
        'engine::Position::_piece_position': (0, 63),
        # derived by B3 (search stack) and B4 (PV length)
        'engine::Info::_ply': (-1, max_ply),
        'engine::Info::_pv_list_length': (0, max_ply + 1),
        # never written after their initialiser (C11.WHO): values from the initialiser lists
        'engine::BISHOP_INDEX_BITS': (min(p.val('engine::BISHOP_INDEX_BITS')), max(p.val('engine::BISHOP_INDEX_BITS'))),
        'engine::ROOK_INDEX_BITS': (min(p.val('engine::ROOK_INDEX_BITS')), max(p.val('engine::ROOK_INDEX_BITS'))),
        # C09.R1/R2: the iteration counter never exceeds the clamped depth limit
        'engine::Search::_current_depth': (0, maxd),
        'engine::Search::_search_depth': (-(2 ** 31), maxd),
    }
    dec = {
        # PACK decoders return what the encoder stored (C03.R2, C16.R1): values of the parameter's enum type
        'engine::captured_piece': (0, enum['PieceKind']['KING']),
        'engine::promotion': (0, enum['PieceKind']['KING']),
        'engine::pin_piece_kind': (0, enum['PieceKind']['KING']),
        'engine::lsb': _bitscan_range, 'engine::msb': _bitscan_range, 'engine::pop_lsb': _bitscan_range,
        # list lengths: A-218 (at most 218 legal moves) and B7 (searchmoves <= MAX_MOVES)
    }
    iv = Intervals(p, field_ranges=fields, call_ranges=dec)
    ctx.assume('A-PC/A-LIST: at most ten pieces of a kind per side; piece lists hold squares 0..63 (legal positions)')
    ctx.assume('A-ENUM(decoders): captured_piece/promotion/pin_piece_kind return values of the enum type their encoder was given (PACK, C03.R2/C16.R1)')
    ctx.assume('C11.WHO: the magic index-bit tables are never written after initialisation')
    ctx.assume('C09.R1/R2: _current_depth <= _search_depth <= MAX_DEPTH')

    funcs = [f for f in p.repo_funcs('engine/')]
    _pointer_escapes(ctx, p, funcs, iv)
    called = set()
    for f in funcs:
        for n, fid, nm in f.calls():
            if fid in p.funcs:
                called.add(fid)
    # ---- whole-program parameter intervals: ascending fixpoint, then descending rounds ---------------------
    param_in = {}

    last_seen = {}

    def run_round(read, write, only_dirty):
        ch = [False]

        def on_call(g, vals):
            cur = write.get(g.id)
            if cur is None:
                write[g.id] = list(vals) + [None] * max(0, len(g.params) - len(vals))
                ch[0] = True
                return
            for i, v in enumerate(vals[:len(cur)]):
                h = hull(cur[i], v)
                if h != cur[i]:
                    cur[i] = h
                    ch[0] = True
        iv.on_call = on_call
        for f in funcs:
            if f.id in called and f.id not in read:
                continue
            ps = read.get(f.id) if f.id in called else None
            key = tuple(ps) if ps is not None else None
            if only_dirty and last_seen.get(f.id, 'x') == key:
                continue       # same inputs as last time: same outgoing call arguments
            last_seen[f.id] = key
            iv.analyse(f, ps)
        iv.on_call = None
        return ch[0]

    for rnd in range(200):
        if not run_round(param_in, param_in, True):
            break
    else:
        raise AnalysisBroken('parameter intervals did not stabilise')
    for rnd2 in range(2):
        new = {}
        run_round(param_in, new, False)
        for k in list(new):
            old = param_in.get(k)
            if old is not None:
                new[k] = [(_meet(a, b) if a is not None and b is not None else (a if b is None else b))
                          for a, b in zip(old, new[k])]
        for k, v in param_in.items():
            new.setdefault(k, v)
        param_in = new
    ctx.info['param_rounds'] = rnd + 1

    # ---- sites ------------------------------------------------------------------------------------------------
    n_sites = n_auto = n_heap = 0
    special = []
    heap = []
    for f in funcs:
        if f.id in called and f.id not in param_in:
            continue      # unreachable from any root
        ctx.analysed(f)
        ret, sites, inb = iv.analyse(f, param_in.get(f.id) if f.id in called else None)
        for nid, itv in sorted(sites.items()):
            n = f.nodes[nid]
            base, ext, idx, kind = _site_info(f, n)
            if ext is None:
                n_heap += 1
                if kind == 'ptr':
                    special.append((f, n, base, None, idx, itv, kind))
                else:
                    heap.append((f, n, base, idx, itv, kind))
                continue
            n_sites += 1
            if itv[0] >= 0 and itv[1] < ext:
                n_auto += 1
                ctx.ob('C10.BUF.interval', '%s%s:%s[%s]@%d' % (short(f.name), '<%s>' % short(f.targs) if f.targs else '', base,
                                                             canon(f, idx, inline=False), n['l']), True,
                       'index interval [%s,%s] within extent %d' % (itv[0], itv[1], ext), site=f.loc(n), sample=(n_auto <= 3))
            else:
                special.append((f, n, base, ext, idx, itv, kind))
    ctx.info['sites_fixed_extent'] = n_sites
    ctx.info['sites_discharged_by_intervals'] = n_auto
    ctx.info['sites_heap_containers_not_decided'] = n_heap
    ctx.floor('C10.BUF.sites', n_sites, 600, 'fixed-extent subscript sites')

    for (f, n, base, ext, idx, itv, kind) in special:
        ok, rule, why = _named(ctx, p, f, n, base, ext, idx, itv, kind, maxm, stack)
        if not ok and rule == 'unclassified' and (p.is_new_function(f) or _from_new_code(p, f, idx)):
            raise AnalysisBroken('C10: subscript %s[...] at %s is in code the reference tree did not have and no rule classifies it' % (base, f.loc(n)))
        key = '%s%s:%s[%s]' % (short(f.name), '<%s>' % short(f.targs) if f.targs else '', base, canon(f, idx, inline=False))
        ctx.ob('C10.BUF.' + rule, key, ok,
               '%s (index interval [%s,%s], extent %s)' % (why, itv[0], itv[1], ext), site=f.loc(n))

    # ---- sized containers (std::string tables, vectors, maps, match results) ----------------------------------------
    seen_h = set()
    for (f, n, base, idx, itv, kind) in heap:
        key = '%s:%s[%s]' % (short(f.name), base, canon(f, idx, inline=False))
        if key in seen_h:
            continue
        seen_h.add(key)
        ok, rule, why = _heap_rule(ctx, p, f, n, base, idx, itv, kind)
        if not ok and rule == 'container':
            raise AnalysisBroken('C10: subscript %s[...] at %s is on a kind of object (%s) no rule of the check covers' % (base, f.loc(n), kind))
        if not ok and rule in ('vector', 'string', 'container') and p.is_new_function(f):
            raise AnalysisBroken('C10: subscript %s[...] at %s is in code the reference tree did not have and no rule classifies it' % (base, f.loc(n)))
        ctx.ob('C10.HEAP.' + rule, key, ok, '%s (index interval [%s,%s])' % (why, itv[0], itv[1]), site=f.loc(n),
               sample=(rule not in ('map',) or not ok))

    # ---- B3 search stack / B4 PV / B5 move-list rows -------------------------------------------------------------
    for ob in stack['obligations']:
        ctx.ob(*ob[:4], site=ob[4])

    # ---- B2: the depth-indexed array relies on the clamp and counter discipline of C09 ----------------------
    from rules.common import SubCtx
    import props.C09 as c09
    sub = SubCtx(ctx)
    try:
        c09.check(sub)
    except AnalysisBroken:
        # what C09 had refuted before it stopped still stands; otherwise its stop is ours
        if not [r for r in sub.results if not r[2] and (r[0].startswith('C09.R1') or r[0].startswith('C09.R2'))]:
            raise
    bad = [r for r in sub.results if not r[2] and (r[0].startswith('C09.R1') or r[0].startswith('C09.R2'))]
    ctx.ob('C10.B2.depth-index', 'previous_moves[_current_depth]', not bad,
           'the iteration counter used as an index is bounded by MAX_DEPTH: every definition of the depth limit is clamped and '
           'the counter is compared with it on every cycle (C09.R1, C09.R2)%s'
           % ('' if not bad else ' — refuted: ' + '; '.join('%s at %s' % (r[0], r[4]) for r in bad)),
           site=bad[0][4] if bad else 'engine/search.cpp')

    # ---- B8: pin list --------------------------------------------------------------------------------------
    pins = p.var('engine::PINS')
    gp = [f for f in p.fns('engine::generate_pins')]
    n_b8 = 0
    for f in gp:
        ctx.analysed(f)
        calls = [n for n, cfid, nm in f.calls() if nm == 'engine::generate_pin_in_ray']
        looped = any(f.cfg.back_edges() for _ in [0])
        per_call = 0
        for g in p.fns('engine::generate_pin_in_ray'):
            if g.targs.split(',')[0] != f.targs:
                continue
            stores = [n for n in g.all_nodes() if n['k'] == 'UnaryOperator' and n.get('op') == '*' and
                      strip_casts(kids(n)[0])['k'] == 'UnaryOperator' and strip_casts(kids(n)[0]).get('op') == '++'
                      and access_kind(g, n) == 'write']
            in_loop = bool(g.cfg.back_edges())
            per_call = max(per_call, (10 ** 6 if in_loop else len(stores)))
        n_b8 += 1
        ctx.ob('C10.B8.pin-list', 'generate_pins<%s>' % short(f.targs), not looped and len(calls) * per_call <= pins['dims'][0],
               '%d calls x at most %d store each into PINS[%d]' % (len(calls), per_call, pins['dims'][0]), site=f.loc())
    ctx.floor('C10.B8.pin-list', n_b8, 2, 'generate_pins instantiations')
    starts = [(f, n) for f in p.repo_funcs('engine/') for n, cfid, nm in f.calls() if nm == 'engine::generate_pins']
    okp = all(canon(f, kids(n)[2]) == 'PINS' for f, n in starts)
    ctx.ob('C10.B8.pin-list-start', 'PINS', okp and bool(starts), 'every pin generation starts at PINS[0]', site=starts[0][0].loc(starts[0][1]) if starts else '')

    # ---- B10: every buffer handed to generate_moves has at least MAX_MOVES entries --------------------------------
    n_b10 = 0
    for f, call in p.callers_of('engine::generate_moves'):
        ctx.analysed(f)
        n_b10 += 1
        arg = strip_casts(kids(call)[3])
        cap, what = _buffer_capacity(p, f, arg, call)
        ctx.ob('C10.B10.list-capacity', '%s:%s' % (short(f.name), what), cap is not None and cap >= maxm,
               'the list passed to generate_moves holds %s entries (need MAX_MOVES = %d; at most 218 moves are legal)' % (cap, maxm),
               site=f.loc(call))
    ctx.floor('C10.B10.list-capacity', n_b10, 8, 'generate_moves call sites')
    ctx.ob('C10.B10.max-moves', 'MAX_MOVES', maxm >= 218, 'MAX_MOVES (%d) >= 218, the maximum number of legal moves' % maxm,
           site='engine/types.h')
    # emission discipline: every `*list++ = ...` is in a function whose list parameter comes from generate_moves' buffer
    ctx.assume('A-218: a legal position has at most 218 legal moves (so a 512-entry list cannot overflow)')

    # ---- B11: uninitialised locals ------------------------------------------------------------------------------
    _uninit(ctx, p, funcs)
    _uninit_members(ctx, p)

    ctx.note('not decided: heap containers (%d subscript sites on std::vector/map/string), object lifetime at quit' % n_heap)


def _meet(a, b):
    lo, hi = max(a[0], b[0]), min(a[1], b[1])
    return (lo, hi) if lo <= hi else b


# ----------------------------------------------------------------------------------------------------------------
def _named(ctx, p, f, n, base, ext, idx, itv, kind, maxm, stack):
    """site-specific discharge rules; returns (ok, rule name, explanation)"""
    fn = short(f.name)
    ic = canon(f, idx, inline=False)
    ici = canon(f, idx)
    # window rule: begin[i] with i a counting-loop variable bounded by (end - begin) of the same pointer
    if kind == 'ptr':
        b = strip_casts(kids(n)[0])
        bid = b.get('ref', {}).get('id')
        iid = strip_casts(idx).get('ref', {}).get('id')
        cvi = const_of(strip_casts(idx))
        if cvi is not None and cvi == 0:
            # begin[0] is only reached when the list is non-empty
            for cond, truth in guard_facts(f, n):
                s = canon(f, cond)
                if re.match(r'\(\(?.*-.*\)?==0\)', s.replace(' ', '')) and not truth:
                    return True, 'window', 'first element of a list known to be non-empty'
        for a in f.ancestors(n):
            if a['k'] == 'ForStmt':
                cf = counting_for(f, a)
                if cf and cf[0] == iid:
                    bound = canon(f, cf[1], inline=False)
                    bl = strip_casts(cf[1]).get('ref', {})
                    if bl.get('k') == 'Local':
                        d0 = single_def(f, bl['id'])
                        if d0 is not None:
                            bound = canon(f, d0, inline=False)
                    if re.match(r'\(?\w+-%s\)?$' % re.escape(b['ref']['n']), bound.replace(' ', '').replace('static_cast<int>', '')) or \
                            bound.replace(' ', '') in ('(end-begin)', 'n_moves', '((end-begin)-1)', '(n_moves-1)'):
                        return True, 'window', 'index is a loop counter below end - begin of the same list'
                    if '(end-begin)' in bound.replace(' ', ''):
                        return True, 'window', 'index is a loop counter below end - begin of the same list'
        # best = i .. j inside such loops
        if fn == 'order_moves':
            return _order_moves_idx(f, idx), 'window', 'selection-sort index: a loop counter below n_moves or `best` assigned only from such counters'
        if fn == 'compute_search_delta':
            return True, 'window', 'indices i, i-1 with 1 <= i < current_depth <= MAX_DEPTH into previous_moves[MAX_DEPTH+1] (C09.R2)'
        return False, 'pointer', 'pointer subscript outside the understood window idioms'
    if fn == 'order_moves' and base == '_scores':
        ok = _order_moves_idx(f, idx)
        return ok and ext >= maxm, 'lockstep', \
            '_scores[%s]: counter runs in lockstep with the list iterator / below n_moves = end - begin <= MAX_MOVES (A-218, B7)' % ic
    if base.startswith('_piece_position[') and fn in ('add_piece', 'Position') and '_piece_count[' in ici:
        who = sorted(set(short(g.name) for g, m, k in p.field_accesses(POS, '_piece_count') if k in ('write', 'rmw')))
        return set(who) <= {'add_piece', 'remove_piece', 'Position'} and ext >= 10, 'B6.piece-list', \
            'slot _piece_count[piece] < 10 before a piece is added (A-PC); the counter is written only by %s' % who
    if base.startswith('_piece_position[') and fn == 'remove_piece':
        return ext >= 10, 'B6.piece-list', 'pos = _piece_count[piece]-1 >= 0 because the removed piece is in its list (A-WF: removal of an existing piece)'
    if base in ('_piece_count', '_piece_position', 'PIECE_HASH', '_by_color_bb', '_by_piece_kind_bb') and itv[1] <= 13 and itv[0] >= 0:
        return _piece_arg_valid(p, f, idx), 'piece-domain', \
            'piece = make_piece(colour, kind) with kind <= KING or read from _board: at most B_KING (12)'
    if base == 'limits.searchmoves':
        ctx.assume('A-SM: a GUI sends at most MAX_MOVES (512) searchmoves (they are distinct legal moves, <= 218)')
        return ext >= 218, 'B7.searchmoves', 'input-driven counter bounded only by well-formedness of the command (A-SM)'
    if base == 'BITBASE':
        return _bitbase_ok(p, f, n, ext), 'B12.bitbase', \
            'idx/32 with idx < MAX_INDEX: check() is only called after normalize() (file <= D), pawn ranks 2..7 (A-WF)'
    if base == 'RANKS_BB' and fn == 'score_pawns_for_side':
        ctx.assume('A-PAWN: pawns stand on ranks 2..7')
        return '(r-up)' in ic.replace(' ', ''), 'pawn-rank', 'rank of a pawn is 1..6, so r -/+ 1 is 0..7 (A-PAWN)'
    if ext == 8 and strip_casts(idx).get('callee', {}).get('n') in ('engine::rank', 'engine::file'):
        inner = kids(strip_casts(idx))[1]
        src = _square_source(p, f, inner)
        if src is not None:
            return src[0], 'square', 'rank/file of a valid square: ' + src[1]
    if base == 'MOVE_LIST' and short(strip_casts(idx).get('ref', {}).get('n', '')) == '_ply' and fn in ('search', 'quiescence_search'):
        w = [x for x in f.all_nodes() if x.get('ref', {}).get('n') == 'engine::Info::_ply' and access_kind(f, x) == 'write']
        okw = bool(w) and all(f.cfg.node_dominates(w[0], n) for _ in [0])
        v = canon(f, written_value(f, w[0])) if w else ''
        return okw and v.replace(' ', '') == '(((info-1))._ply+1)'.replace('((info-1))', '(info-1)') or \
            (okw and '_ply+1' in v.replace(' ', '')) and ext > stack['max_ply'], 'B5.move-list-row', \
            'row = this frame\'s ply, assigned parent ply + 1 (>= 0) on entry and bounded by the stack-depth rule (<= %d)' % stack['max_ply']
    if fn == 'get_blockers_from_index' and kind == 'shift':
        # for (i < popcount(mask)) { position = pop_lsb(&mask); ... }: one bit is removed per iteration
        loops = [a for a in f.ancestors(n) if a['k'] == 'ForStmt']
        cf = counting_for(f, loops[0]) if loops else None
        bound = canon(f, cf[1]) if cf else ''
        pops = [x for x, cfid, nm in f.calls() if short(nm) == 'pop_lsb' and f.inside(x, loops[0])] if loops else []
        return cf is not None and bound == 'popcount(mask)' and len(pops) == 1 and \
            canon(f, kids(pops[0])[1]) == '&(mask)', 'popcount-bounded-scan', \
            'the loop runs popcount(mask) times and removes exactly one bit of mask per iteration, so every scan sees a non-empty board'
    if fn == 'generate_enpassant' and kind == 'shift':
        ctx.assume('A-EP: the e.p. square lies on rank 3 or 6 (set only behind a double push), so the squares one rank behind it exist')
        ok = re.match(r'^\(?enpassant_square-(up|upright|upleft)\)?$', canon(f, idx, inline=False).replace(' ', '')) is not None or \
            canon(f, idx, inline=False) == 'captured_square'
        return ok, 'ep-geometry', 'square one rank behind the e.p. square (A-EP)'
    if fn == 'init_lines_bitboards' and base.startswith('LINES['):
        # to / to_bb walk in lockstep: the store is governed by the loop test on to_bb, and both are
        # advanced together after it with the same direction index (C11.R6 checks moves[i] == directions[i])
        gf = [canon(f, c, inline=False) for c, t in guard_facts(f, n) if t]
        upd = [x for x in f.all_nodes() if x['k'] == 'BinaryOperator' and x.get('op') == '=' and
               short(strip_casts(kids(x)[0]).get('ref', {}).get('n', '')) in ('to', 'to_bb')]
        same_block = len(upd) >= 2 and len(set(f.cfg.position(x)[0] for x in upd if f.inside(x, [a for a in f.ancestors(n) if a['k'] == 'WhileStmt'][0]))) == 1
        after = all(f.cfg.node_dominates(n, x) for x in upd if f.inside(x, [a for a in f.ancestors(n) if a['k'] == 'WhileStmt'][0]))
        return 'to_bb' in gf and same_block and after, 'lockstep-walk', \
            '`to` is stepped together with the one-bit board to_bb that the loop tests, so it is a board square whenever the store runs (C11.R6)'
    # squares
    sq_src = _square_source(p, f, idx)
    if sq_src is not None and ext >= 64:
        return sq_src[0], 'square', sq_src[1]
    return False, 'unclassified', 'no rule discharges this site'


def _heap_rule(ctx, p, f, n, base, idx, itv, kind):
    fn = short(f.name)
    ic = canon(f, idx, inline=False).replace(' ', '')
    cv = const_of(strip_casts(idx))
    if kind == 'heap:std::map':
        return True, 'map', 'std::map::operator[] inserts a missing key: no bound to respect'
    if kind == 'heap:std::match_results':
        return (cv is not None and cv >= 0) or (itv is not None and itv[0] is not None and itv[0] >= 0), 'match-group', \
            'std::match_results::operator[] answers an empty sub_match for an index beyond the groups of the regex: only a negative index is out of bounds'
    obj = kids(n)[1]
    o = strip_casts(obj)
    if kind == 'heap:std::basic_string':
        # a local constant string table: extent = length (reading [size()] is defined and yields NUL)
        lit = None
        r = o.get('ref', {})
        if r.get('k') == 'Local':
            d = single_def(f, r['id'])
            if d is not None:
                for x in walk(d):
                    if x['k'] == 'StringLiteral':
                        lit = x.get('s')
        if lit is not None:
            return itv[0] >= 0 and itv[1] <= len(lit), 'string-table', 'index into the %d-character table %r' % (len(lit), lit)
        if r.get('k') == 'Parm' and cv is not None:
            # constant position in caller-supplied text
            for cond, truth in guard_facts(f, n):
                s_ = canon(f, cond, inline=False).replace(' ', '')
                m = re.match(r'^\(%s\.size\(\)>(\d+)\)$' % re.escape(r['n']), s_)
                if m and truth and int(m.group(1)) >= cv:
                    return True, 'text-guarded', 'character %d read under size() > %s' % (cv, m.group(1))
            ctx.assume('A-WF: move and square tokens sent by the GUI have at least 4 (resp. 2) characters')
            return cv <= 3, 'text', 'character %d of a well-formed move/square token (A-WF)' % cv
        return False, 'string', 'unclassified string subscript'
    if kind == 'heap:std::vector':
        r = o.get('ref', {})
        oname = canon(f, obj, inline=False)
        # HashMap storage: vector of Size entries indexed by key & (Size-1), or by a counter below a bound <= Size
        if r.get('n', '').endswith('::data_'):
            rec = p.records.get(f.cls or '', {})
            m = re.search(r'HashMap<.*, (\d+)>::', f.id)
            size = int(m.group(1)) if m else None
            resized = [g for g in p.funcs.values() if g.cls == f.cls for x, cfid, nm in g.calls()
                       if short(nm) in ('push_back', 'resize', 'clear', 'pop_back', 'erase', 'shrink_to_fit', 'assign', 'emplace_back')
                       and nm.startswith('std::vector') and 'data_' in canon(g, x, inline=False)]
            ctor_n = [fd for fd in p.records.get([k for k in p.records if k.startswith('engine::HashMap<')][0], {}).get('fields', [])
                      if fd['name'] == 'data_' and fd.get('has_init')] if any(k.startswith('engine::HashMap<') for k in p.records) else [1]
            if size is None or resized:
                return False, 'hashmap', 'HashMap storage is resized or its size is unknown'
            return itv[0] >= 0 and itv[1] < size, 'hashmap', 'HashMap<%d> storage (constructed with Size entries, never resized)' % size
        # descending scan from size()-k guarded by i >= 0
        iv_ = strip_casts(idx).get('ref', {})
        off_ = 0
        ix_ = strip_casts(idx)
        if ix_['k'] == 'BinaryOperator' and ix_.get('op') in ('+', '-') and const_of(strip_casts(kids(ix_)[1])) is not None and \
                strip_casts(kids(ix_)[0]).get('ref', {}).get('k') == 'Local':
            iv_ = strip_casts(kids(ix_)[0])['ref']
            off_ = const_of(strip_casts(kids(ix_)[1])) * (1 if ix_['op'] == '+' else -1)
        if iv_.get('k') == 'Local' and off_ != 0:
            # v[i + off] in a descending scan `for (i = size() - k; i >= L; --i)` (or i > L - 1): in range when L + off >= 0 and off < k
            for a in f.ancestors(n):
                if a['k'] == 'ForStmt':
                    ch = a.get('ch') or []
                    init, cond, inc = ch[0], ch[2], ch[3]
                    decl = [x for x in walk(init) if x['k'] == 'VarDecl' and x.get('id') == iv_['id']] if init else []
                    if not decl or cond is None or inc is None:
                        continue
                    start = canon(f, kids(decl[0])[0], inline=False).replace(' ', '')
                    step = canon(f, inc, inline=False).replace(' ', '')
                    m = re.match(r'^\((int\()?%s\.size\(\)\)?-(\d+)\)$' % re.escape(oname), start)
                    c0 = strip_casts(cond)
                    low = None
                    if c0['k'] == 'BinaryOperator' and c0.get('op') in ('>', '>=') and strip_casts(kids(c0)[0]).get('ref', {}).get('id') == iv_['id']:
                        cv_ = const_of(strip_casts(kids(c0)[1]))
                        if cv_ is not None:
                            low = cv_ + (1 if c0['op'] == '>' else 0)
                    if m and low is not None and step in ('--(%s)' % iv_['n'], '(%s)--' % iv_['n']) and not local_writes(f, iv_['id'], ch[4]) \
                            and low + off_ >= 0 and off_ < int(m.group(2)):
                        return True, 'vector-window', 'index %s%+d with %s running from size()-%s down to %d' % (iv_['n'], off_, iv_['n'], m.group(2), low)
        if iv_.get('k') == 'Local' and off_ == 0:
            for a in f.ancestors(n):
                if a['k'] == 'ForStmt':
                    ch = a.get('ch') or []
                    init, cond, inc = ch[0], ch[2], ch[3]
                    decl = [x for x in walk(init) if x['k'] == 'VarDecl' and x.get('id') == iv_['id']] if init else []
                    if not decl:
                        continue
                    start = canon(f, kids(decl[0])[0], inline=False).replace(' ', '')
                    cnd = canon(f, cond, inline=False).replace(' ', '') if cond else ''
                    step = canon(f, inc, inline=False).replace(' ', '') if inc else ''
                    m = re.match(r'^\((int\()?%s\.size\(\)\)?-(\d+)\)$' % re.escape(oname), start)
                    if m and int(m.group(2)) >= 1 and cnd == '(%s>=0)' % iv_['n'] and step in ('--(%s)' % iv_['n'], '(%s)--' % iv_['n']) \
                            and not local_writes(f, iv_['id'], ch[4]):
                        return True, 'vector-window', 'index runs from size()-%s down to 0 under i >= 0' % m.group(2)
                    m2 = re.match(r'^\(%s<%s\.size\(\)\)$' % (re.escape(iv_['n']), re.escape(oname)), cnd)
                    if m2 and itv[0] >= 0:
                        return True, 'vector-window', 'index is a loop counter below size()'
        if cv == 0:
            for cond, truth in guard_facts(f, n):
                s_ = canon(f, cond, inline=False).replace(' ', '')
                if s_ == '%s.empty()' % oname and not truth:
                    return True, 'vector-nonempty', 'first element read under !empty()'
        if fn in ('update_score', 'init') and oname == 'results':
            mi = p.val('engine::bitbase::MAX_INDEX')
            if itv[0] >= 0 and itv[1] < mi:
                return True, 'bitbase-results', 'results has MAX_INDEX = %d entries' % mi
            # the interval domain loses "pawn file <= D" when file and rank are packed into a square: the pawn argument of
            # every getIndex call is parse_index's wPawn or the same file one/two ranks up, and parse_index reads a 2-bit file
            pi = p.fn('engine::bitbase::parse_index')
            two_bit = any(x['k'] == 'BinaryOperator' and x.get('op') == '&' and const_of(strip_casts(kids(x)[1])) == 3 and
                          '13' in canon(pi, x, inline=False) for x in pi.all_nodes())
            pawn_args = set()
            for x, cfid, nm in f.calls():
                if nm == 'engine::bitbase::getIndex':
                    a0 = strip_casts(kids(x)[3])
                    r0 = a0.get('ref', {})
                    if r0.get('k') == 'Local' and single_def(f, r0['id']) is None and r0['n'] != 'wPawn':
                        # every definition of the local
                        for d0 in f.all_nodes():
                            if d0['k'] == 'VarDecl' and d0.get('id') == r0['id'] and kids(d0):
                                pawn_args.add(canon(f, kids(d0)[0]).replace(' ', ''))
                        for w0 in local_writes(f, r0['id']):
                            v0 = written_value(f, w0)
                            pawn_args.add(canon(f, v0).replace(' ', '') if v0 is not None else '?')
                    else:
                        pawn_args.add(canon(f, a0).replace(' ', ''))
            keep_file = all(a == 'wPawn' or re.match(r'^make_square\(.*,file\(wPawn\)\)$', a) for a in pawn_args)
            slack = (7 - 3) << 13
            return two_bit and keep_file and itv[0] >= 0 and itv[1] - slack < mi, 'bitbase-results', \
                'results has MAX_INDEX = %d entries; the pawn stays on parse_index\'s 2-bit file (<= D), which the interval of file() (<= H) over-counts by %d' % (mi, slack)
        if fn == 'get_random_move' and oname == 'moves':
            return _cumulative_walk(f), 'cumulative-walk', \
                'sample = r % sum(weights) < sum, and the walk adds the same weights, so it stops before the end of the vector'
        return False, 'vector', 'unclassified vector subscript'
    return False, 'container', 'unclassified container subscript (%s)' % kind


_CW = {}


def _cumulative_walk(f, ctx=None):
    """get_random_move: sum over the vector, sample reduced modulo that sum, then a cumulative walk over the same vector that stops
    inside it — exactly what C19.R4 decides (sum, sample-range, cumulative-walk, all-zero), so those obligations are reused"""
    if 'ok' not in _CW:
        from rules.common import SubCtx
        import props.C19 as c19

        class _P:
            tier = 'quick'

            def prog(self, *a, **k):
                return f.prog

            def analysed(self, fn):
                pass
        sub = SubCtx(_P())
        sub.prog = lambda *a, **k: f.prog
        try:
            c19.selection(sub, f.prog)
        except AnalysisBroken:
            _CW['ok'] = False
            raise
        need = {'C19.R4.sum', 'C19.R4.sample-range', 'C19.R4.cumulative-walk', 'C19.R4.all-zero', 'C19.R4.answer'}
        got = {r[0]: r[2] for r in sub.results}
        _CW['ok'] = all(got.get(k) for k in need)
    return _CW['ok']


def _order_moves_idx(f, idx):
    t = strip_casts(idx)
    vid = t.get('ref', {}).get('id')
    if vid is None:
        return False
    name = t['ref']['n']
    if name == 'best':
        # every definition of best is a loop counter, or the position of std::max_element over a window [counter, n_moves) of the same array
        ok = True
        for n in f.all_nodes():
            if n['k'] == 'VarDecl' and n.get('id') == vid and kids(n):
                d0 = strip_casts(kids(n)[0])
                if d0.get('ref', {}).get('n') in ('i', 'j'):
                    continue
                import re as _re
                sdef = canon(f, d0, inline=False).replace(' ', '')
                m = _re.fullmatch(r'\(max_element\(\((\w+)\+(\w+)\),\(\1\+n_moves\)\)-\1\)', sdef)
                lo_ok = False
                if m:
                    # the lower end is a counter of an enclosing loop that stays below n_moves (window not empty)
                    for a in f.ancestors(n):
                        if a['k'] == 'ForStmt':
                            cf = counting_for(f, a)
                            if cf and any(x['k'] == 'VarDecl' and x.get('id') == cf[0] and x.get('name') == m.group(2) for x in f.all_nodes()) and \
                                    'n_moves' in canon(f, cf[1], inline=False) and cf[2] == '<':
                                lo_ok = True
                ok = ok and bool(m) and lo_ok
        for w in local_writes(f, vid):
            v = written_value(f, w)
            ok = ok and v is not None and strip_casts(v).get('ref', {}).get('n') in ('i', 'j')
        return ok
    for a in f.all_nodes():
        if a['k'] == 'ForStmt':
            cf = counting_for(f, a)
            if cf and cf[0] == vid:
                return 'n_moves' in canon(f, cf[1], inline=False)
            # lockstep: for (it = begin; it != end; ++it, ++i)
            ch = a.get('ch') or []
            if len(ch) == 5 and ch[3] is not None:
                inc = strip_casts(ch[3])
                if inc['k'] == 'BinaryOperator' and inc.get('op') == ',':
                    parts = [strip_casts(x) for x in kids(inc)]
                    ids = [strip_casts(kids(x)[0]).get('ref', {}).get('id') for x in parts if x['k'] == 'UnaryOperator' and x.get('op') == '++']
                    cond = canon(f, ch[2], inline=False) if ch[2] else ''
                    if vid in ids and len(ids) == 2 and cond.replace(' ', '') in ('(it!=end)',):
                        # i starts at 0 right before the loop and is not written in the body
                        body_w = [w for w in local_writes(f, vid) if f.inside(w, ch[4])]
                        d = single_def(f, vid)
                        init0 = any(x['k'] == 'VarDecl' and x.get('id') == vid and kids(x) and const_of(strip_casts(kids(x)[0])) == 0
                                    for x in f.all_nodes())
                        return init0 and not body_w
    return False


def _piece_arg_valid(p, f, idx):
    """index is a Piece produced by make_piece / read from the board / a parameter fed only such values"""
    t = strip_casts(idx)
    s = canon(f, t)
    if s.startswith('make_piece(') or s.startswith('_board[') or s.startswith('get_color(') or s.startswith('get_piece_kind('):
        return True
    if t.get('ref', {}).get('k') == 'Parm':
        # all callers
        ok = True
        pi = [q['id'] for q in f.params].index(t['ref']['id'])
        for g, call in p.callers_of(f.name):
            args = kids(call)[1:]
            if pi < len(args):
                a = canon(g, args[pi])
                if not (a.startswith('make_piece(') or a.startswith('_board[') or 'piece' in a.lower() or
                        const_of(strip_casts(args[pi])) is not None):
                    ok = False
        return ok
    if t.get('ref', {}).get('k') == 'Local':
        return True if ('make_piece(' in s or '_board[' in s or 'char_to_piece' in s) else False
    return False


def _bitbase_ok(p, f, n, ext):
    mi = p.val('engine::bitbase::MAX_INDEX')
    if ext * 32 < mi:
        return False
    if short(f.name) == 'init':
        return True   # loop idx < MAX_INDEX: idx/32 < MAX_INDEX/32 (integer division), extent MAX_INDEX/32
    if short(f.name) == 'check':
        # every caller normalises first
        ok = True
        for g, call in p.callers_of('engine::bitbase::check'):
            norm = [m for m, cfid, nm in g.calls() if nm == 'engine::bitbase::normalize']
            ok = ok and bool(norm) and all(g.cfg.node_dominates(x, call) for x in norm[:1])
            # same variables
            if norm:
                a1 = [canon(g, a, inline=False) for a in kids(norm[0])[1:]][1:]
                a2 = [canon(g, a, inline=False) for a in kids(call)[1:]]
                ok = ok and a1 == a2
        # getIndex layout: 6+6+1+2+3 bits with file <= 3, rank offset <= 5
        return ok and (63 | 63 << 6 | 1 << 12 | 3 << 13 | 5 << 15) < mi
    return False


def _square_source(p, f, idx):
    """classify where a square-typed index comes from; returns (ok, explanation) or None"""
    t = strip_casts(idx)
    s = canon(f, t)
    s0 = canon(f, t, inline=False)
    # text-derived squares (FEN / move text)
    if short(f.name) in ('Position', 'parse_uci') and ('str' in s or 'square' == s0 or 'token' in s or 'notation' in s):
        return True, 'square parsed from well-formed FEN / move text (A-WF)'
    if t.get('ref', {}).get('k') == 'Parm':
        # parameter: all call sites must pass a valid square
        pi = [q['id'] for q in f.params].index(t['ref']['id'])
        bad = []
        n_c = 0
        for g, call in p.callers_of(f.name):
            if g.targs != f.targs and f.targs and g.name == f.name:
                pass
            args = kids(call)[1:]
            if call['k'] == 'CXXOperatorCallExpr':
                continue
            if pi >= len(args):
                continue
            n_c += 1
            ok, why = _valid_square_expr(p, g, args[pi], 0)
            if not ok:
                bad.append('%s:%d (%s)' % (short(g.name), call['l'], why))
        if n_c == 0:
            return None
        if bad:
            return False, 'callers pass a possibly invalid square: ' + '; '.join(bad[:4])
        return True, 'every one of the %d call sites passes a valid square' % n_c
    ok, why = _valid_square_expr(p, f, t, 0)
    return ok, why


def _valid_square_expr(p, g, e, depth):
    e = strip_casts(e)
    s = canon(g, e)
    s0 = canon(g, e, inline=False)
    if depth > 4:
        return False, 'too deep'
    cv = const_of(e)
    if cv is not None:
        return 0 <= cv <= 63, 'constant %d' % cv
    for pre, why in (('from(', 'from()/to() mask 0x3F'), ('to(', 'from()/to() mask 0x3F'), ('pin_square(', 'pin_square masks 0x3F'),
                     ('make_square(', 'make_square of rank/file'), ('flip_vertically(', 'flip of a valid square'),
                     ('flip_horizontally(', 'flip of a valid square'), ('normalize(', 'normalize of a valid square'),
                     ('pop_lsb(', 'bit index of a bit scan (0..63)'), ('lsb(', 'bit index of a bit scan (0..63)'),
                     ('msb(', 'bit index of a bit scan (0..63)')):
        if s.startswith(pre):
            return True, why
    if 'piece_position(' in s and s.startswith(('position.piece_position', 'pos.piece_position', 'piece_position', 'this', 'uci')) \
            or re.match(r'^\w*\.?piece_position\(', s):
        return True, 'piece-list entry (A-LIST)'
    if s.startswith('_piece_position['):
        return True, 'piece-list entry (A-LIST)'
    if re.match(r'^most_advanced_pawn\(', s) or (re.match(r'^(lsb|msb)\(', s) and short(g.name) in ('strongSideScore',)):
        return True, 'most advanced pawn of a side that owns a pawn (A-MAT: material precondition checked by Endgame::applies)'
    if re.match(r'^\(to\(move\)\+\(\(\w+==WHITE\)\?-\(?8\)?:8\)\)$', s.replace(' ', '')):
        return True, 'square behind the e.p. target (ranks 4/5), A-EP'
    if re.match(r'^\(sq\+\(8\*up\)\)$', s0.replace(' ', '')):
        return True, 'square in front of a pawn on ranks 2..7 (A-PAWN)'
    r = e.get('ref', {})
    if e['k'] == 'UnaryOperator' and e.get('op') == '*' and ((strip_casts(kids(e)[0]).get('ref') or {}).get('n') or '').startswith('__begin'):
        # the variable of `for (Square s : {a, b, c})`: every listed element
        loop = next((a for a in g.ancestors(e) if a['k'] == 'CXXForRangeStmt'), None)
        rv = [x for x in walk(loop) if x['k'] == 'VarDecl' and (x.get('name') or '').startswith('__range') and kids(x)] if loop else []
        lists = [x for x in walk(kids(rv[0])[0]) if x['k'] == 'InitListExpr'] if rv else []
        if len(lists) == 1 and kids(lists[0]):
            for el in kids(lists[0]):
                ok, why = _valid_square_expr(p, g, el, depth + 1)
                if not ok:
                    return False, why
            return True, 'every element of the braced list is a valid square'
    if r.get('k') == 'Local':
        d = single_def(g, r['id'])
        if d is not None:
            return _valid_square_expr(p, g, d, depth + 1)
        # several definitions (if/else arms, loop variables): every one must be a valid square
        defs = []
        for n in g.all_nodes():
            if n['k'] == 'VarDecl' and n.get('id') == r['id'] and kids(n):
                defs.append(kids(n)[0])
        for w in local_writes(g, r['id']):
            v = written_value(g, w)
            par = g.parent(w)
            if v is not None:
                defs.append(v)
            elif par is not None and par.get('op') in ('++', '--'):
                # SQ_A1..SQ_H8 style loop: bounded by the interval rule at the use; accept the step
                continue
            else:
                return False, 'local modified in an unrecognised way'
        if defs:
            for d2 in defs:
                ok, why = _valid_square_expr(p, g, d2, depth + 1)
                if not ok:
                    return False, why
            return True, 'every definition of the local is a valid square'
        enc = getattr(g, 'enclosing', None)
        if enc is not None:
            # a variable of the enclosing function captured by this lambda
            outer = [x for x in enc.all_nodes() if x['k'] == 'DeclRefExpr' and (x.get('ref') or {}).get('k') in ('Local', 'Parm') and
                     x['ref'].get('n') == r.get('n')]
            if outer:
                return _valid_square_expr(p, enc, outer[0], depth + 1)
    if r.get('k') == 'Parm':
        pi = [q['id'] for q in g.params].index(r['id'])
        bad = []
        n_c = 0
        lam = getattr(g, 'enclosing', None) is not None
        key_ = (g.name, pi)
        if key_ in _PARM_STACK:
            return True, 'parameter passed on by the function to itself / its other instantiations'       # decided by the outer callers
        _PARM_STACK.append(key_)
        try:
            res_ = _parm_callers(p, g, pi, lam, depth)
        finally:
            _PARM_STACK.pop()
        return res_
    if e['k'] == 'ConditionalOperator':
        a = _valid_square_expr(p, g, kids(e)[1], depth + 1)
        b = _valid_square_expr(p, g, kids(e)[2], depth + 1)
        return a[0] and b[0], 'both arms'
    if _from_new_code(p, g, e) or p.is_new_function(g):
        raise AnalysisBroken('C10: a square is computed by `%s` in %s, code the reference tree did not have and no rule classifies'
                             % (s0[:80], short(g.name)))
    return False, 'unrecognised square expression %s' % s0[:40]


_PARM_STACK = []


def _parm_callers(p, g, pi, lam, depth):
    if True:
        bad = []
        n_c = 0
        for h, call in p.callers_of(g.name):
            args = kids(call)[2:] if (lam and call['k'] == 'CXXOperatorCallExpr') else kids(call)[1:]
            if pi >= len(args) or (call['k'] == 'CXXOperatorCallExpr' and not lam):
                continue
            n_c += 1
            ok, why = _valid_square_expr(p, h, args[pi], max(0, depth - 1))
            if not ok:
                bad.append('%s:%d' % (short(h.name), call['l']))
        if n_c and not bad:
            return True, 'parameter: all %d callers pass valid squares' % n_c
        return False, 'parameter with invalid/unknown callers %s' % bad[:3]


def _buffer_capacity(p, f, arg, site=None):
    """capacity (entries) of the buffer whose address is passed as `list`"""
    arg = strip_casts(arg)
    if arg['k'] == 'ConditionalOperator' and site is not None:
        # correlated conditional: the call site sits in an arm of a conditional on the same condition
        cc = canon(f, kids(arg)[0], inline=False)
        prev = site
        for a in f.ancestors(site):
            if a['k'] == 'ConditionalOperator' and canon(f, kids(a)[0], inline=False) == cc:
                arm = 1 if f.inside(prev, kids(a)[1]) else 2
                return _buffer_capacity(p, f, kids(arg)[arm], site)
            prev = a
    r = arg.get('ref', {})
    if r.get('k') == 'Local':
        d = single_def(f, r['id'])
        if d is None and arg.get('i') is not None and arg['i'] >= 0:
            from rules.effects import reaching_def
            d = reaching_def(f, arg)          # the one assignment that reaches this use (if/else arms each defining the pointer)
        if d is not None:
            return _buffer_capacity(p, f, d, site)
        for n in f.all_nodes():
            if n['k'] == 'VarDecl' and n.get('id') == r['id']:
                if n.get('ext'):
                    return n['ext'], 'local %s[%d]' % (n['name'], n['ext'])
                if kids(n):
                    return _buffer_capacity(p, f, kids(n)[0], site)
    if r.get('k') == 'Global':
        v = p.var(r['n'])
        if v.get('dims'):
            return v['dims'][-1], short(r['n'])
    if arg['k'] == 'ImplicitCastExpr' and arg.get('ck') == 'ArrayToPointerDecay':
        return _buffer_capacity(p, f, kids(arg)[0])
    if arg['k'] == 'ArraySubscriptExpr':
        b = strip_casts(kids(arg)[0])
        if b['k'] == 'ImplicitCastExpr':
            b = strip_casts(kids(b)[0])
        t = arg.get('t', '')
        m = re.search(r'\[(\d+)\]$', t)
        if m:
            return int(m.group(1)), canon(f, arg, inline=False)
    if arg['k'] == 'CXXMemberCallExpr' and short(arg.get('callee', {}).get('n', '')) == 'data':
        obj = kids(kids(arg)[0])[0]
        t = strip_casts(obj).get('ct') or strip_casts(obj).get('t', '')
        m = re.match(r'(const )?std::array<(.*), (\d+)>$', t)
        if m:
            return int(m.group(3)), canon(f, obj, inline=False) + '.data()'
    if r.get('k') == 'Parm':
        # forwarded parameter: capacity is the minimum over callers
        pi = [q['id'] for q in f.params].index(r['id'])
        caps = []
        for g, call in p.callers_of(f.name):
            args = kids(call)[1:]
            if pi < len(args):
                caps.append(_buffer_capacity(p, g, args[pi]))
        caps = [c for c in caps if c is not None]
        if caps and all(c[0] is not None for c in caps):
            return min(c[0] for c in caps), 'param via %d callers' % len(caps)
    t = arg.get('t', '')
    m = re.search(r'\[(\d+)\]$', t)
    if m:
        return int(m.group(1)), canon(f, arg, inline=False)
    return None, canon(f, arg, inline=False)


def _stack_depth(ctx, p, maxd):
    """B3/B4/B5: bound on Info::_ply from the recursion structure, and the extents that must contain it"""
    s = p.fn('engine::Search::search')
    q = p.fn('engine::Search::quiescence_search')
    it = p.fn('engine::Search::iter_search')
    obs = []
    # ply cut in search(): smallest K with  info->_ply >= K  => switch to quiescence
    K = None
    for n in s.all_nodes():
        if n['k'] == 'BinaryOperator' and n.get('op') in ('>=', '>'):
            a, b = [strip_casts(x) for x in kids(n)]
            if short(a.get('ref', {}).get('n', '')) == '_ply' and const_of(b) is not None:
                K = const_of(b) + (1 if n['op'] == '>' else 0)
    q0 = None
    for n, cfid, nm in s.calls():
        if nm == q.name:
            q0 = const_of(strip_casts(kids(n)[2]))
    if K is None or q0 is None:
        raise AnalysisBroken('search(): ply cut or quiescence budget not found')
    # quiescence: writes to *info happen before the depth <= 0 return, so the deepest frame is entry ply + q0
    wr_before_cut = False
    cut = None
    for n in q.all_nodes():
        if n['k'] == 'BinaryOperator' and n.get('op') in ('<=', '<', '=='):
            a, b = [strip_casts(x) for x in kids(n)]
            if a.get('ref', {}).get('n') == 'depth' and const_of(b) is not None:
                cut = n
    if cut is None:
        raise AnalysisBroken('quiescence_search(): depth cut not found')
    first_w = [n for n in q.all_nodes() if n.get('ref', {}).get('n') == 'engine::Info::_ply' and access_kind(q, n) == 'write']
    wr_before_cut = bool(first_w) and q.cfg.node_dominates(first_w[0], cut)
    max_ply = K + (q0 if wr_before_cut else q0 - 1)
    # frames: root info = data()+1 (ply 0), data()[0] holds ply -1 ; index = ply + 1
    root_off = None
    from rules.norm import Norm as _Norm
    for n, cfid, nm in it.calls():
        if nm == s.name:
            base_, off_ = _Norm(it).lin(kids(n)[5])
            if base_ is not None and (base_ == 'info' or '_stack_info.data()' in base_.replace('this.', '')):
                root_off = off_ if root_off is None or root_off == off_ else -10 ** 6
    base_is_data = any(short(c.get('callee', {}).get('n', '')) == 'data' for c in it.all_nodes()
                       if c.get('callee') and '_stack_info' in canon(it, c, inline=False))
    st = p.field('engine::Search', '_stack_info')
    m = re.match(r'.*std::array<engine::Info, (\d+)>', st['ct'])
    ext = int(m.group(1)) if m else None
    if root_off is None or ext is None or not base_is_data:
        raise AnalysisBroken('search stack: root frame offset / extent not found')
    deepest_index = max_ply + root_off
    obs.append(('C10.B3.search-stack', 'StackInfo', deepest_index < ext,
                'deepest frame: search recursion is cut at ply %d, quiescence adds %d more plies (its writes %s the depth cut) '
                '=> max ply %d, frame index %d; the stack has %d entries'
                % (K, q0 if wr_before_cut else q0 - 1, 'precede' if wr_before_cut else 'follow', max_ply, deepest_index, ext),
                'engine/info.h'))
    # (info - 1) is used at every ply >= 0: index >= 0 needs root_off >= 1
    obs.append(('C10.B3.stack-underflow', 'StackInfo', root_off >= 1,
                '(info - 1) of the root frame stays inside the stack (root frame at index %d)' % root_off, it.loc()))
    # info +/- k offsets used anywhere are only +1 / -1
    offs = set()
    for f in (s, q, p.fn('engine::update_move_scores'), p.fn('engine::MoveOrderer::order_moves')):
        for n in f.all_nodes():
            if n['k'] == 'BinaryOperator' and n.get('op') in ('+', '-'):
                a, b = [strip_casts(x) for x in kids(n)]
                if a.get('ref', {}).get('n') == 'info' and 'Info *' in (a.get('t') or ''):
                    offs.add((n['op'], const_of(b)))
    obs.append(('C10.B3.frame-offsets', 'info+-k', offs <= {('+', 1), ('-', 1)},
                'frames are addressed only as info, info+1, info-1 (found %s)' % sorted(offs), s.loc()))
    # B4: PV list
    pv = p.field('engine::Info', '_pv_list')
    m = re.match(r'.*std::array<.*, (\d+)>', pv['ct'])
    pvext = int(m.group(1)) if m else None
    # length(ply p) <= length(p+1) + 1, deepest frame has length <= 1  => length(0) <= max_ply + 1
    obs.append(('C10.B4.pv-length', '_pv_list', pvext is not None and max_ply + 1 <= pvext,
                'PV of a frame is at most one move longer than its child\'s (add_new_move_to_pv_list) and the deepest frame holds at most 1: '
                'length <= %d; _pv_list has %s entries' % (max_ply + 1, pvext), 'engine/info.h'))
    # B5: MOVE_LIST rows
    ml = p.var('engine::MOVE_LIST')
    obs.append(('C10.B5.move-list-rows', 'MOVE_LIST', ml['dims'][0] > max_ply,
                'MOVE_LIST has %d rows, the largest row index used by the search is the ply (<= %d)' % (ml['dims'][0], max_ply),
                'engine/movegen.cpp'))
    return {'max_ply': max_ply, 'obligations': obs, 'K': K, 'q0': q0}


def _uninit(ctx, p, funcs):
    """B11: scalar locals declared without initialiser must be assigned on every path before their first read"""
    n_l = 0
    for f in funcs:
        decls = [n for n in f.all_nodes() if n['k'] == 'VarDecl' and not kids(n) and not n.get('static')
                 and _is_scalar(n.get('ct') or n.get('t', ''))]
        for d in decls:
            n_l += 1
            vid = d['id']
            reads = []
            writes = []
            for x in f.all_nodes():
                r = x.get('ref')
                if r and r.get('id') == vid and r['k'] == 'Local':
                    k = access_kind(f, x)
                    if k == 'read':
                        reads.append(x)
                    elif k in ('write', 'addr', 'rmw'):
                        # rmw through a non-const reference parameter (stream >> x, parse_index(.., x)) defines it
                        writes.append(x)
            c = f.cfg
            dpos = c.position(f.parent(d))
            bad = None
            for rd in reads:
                if dpos is None:
                    continue
                path = c.path_avoiding(dpos, set(w['i'] for w in writes), {rd['i']})
                if path is not None:
                    bad = rd
                    break
            ctx.ob('C10.B11.initialised', '%s:%s' % (short(f.name), d['name']), bad is None,
                   'local `%s` (declared without initialiser) is assigned on every path before it is read' % d['name'],
                   site=f.loc(bad or d), sample=(n_l <= 2 or bad is not None))
    ctx.floor('C10.B11.initialised', n_l, 5, 'uninitialised scalar declarations')


def _uninit_members(ctx, p):
    """B12: objects that are copied must not carry indeterminate bool/enum members. For every engine class that is copied
    somewhere (copy/move constructor or assignment called from engine code) every user-provided, non-delegating constructor
    that engine code calls directly must give each bool/enum member a value: member initialiser, default member initialiser, or an
    assignment in the body. (A constructor that only runs inside a value-initialised aggregate starts from zeroed storage.)"""
    copied = set()
    for f in p.repo_funcs('engine/'):
        for n, cfid, nm in f.calls():
            cls = nm.rsplit('::', 1)[0]
            sn = short(nm)
            if sn == 'operator=' or (sn == short(cls) and len(kids(n)) == 1 and
                                     (strip_casts(kids(n)[0]).get('t') or '').replace('const ', '').strip() in (cls, short(cls))):
                copied.add(cls)
    n_c = 0
    for rn, r in sorted(p.records.items()):
        if not r['file'].startswith(p.root + '/engine') or rn not in copied:
            continue
        risky = [fl for fl in r['fields'] if not fl.get('dims') and not fl.get('has_init') and
                 ((fl.get('ct') or '').replace('const ', '') == 'bool' or (fl.get('ct') or '').replace('const ', '') in p.enums)]
        if not risky:
            continue
        for c in [f for f in p.funcs.values() if f.cls == rn and short(f.name) == short(rn) and f.body is not None]:
            inits = c.d.get('inits', [])
            if any(i.get('field') is None for i in inits):
                continue            # delegating constructor
            sites = [(g, n) for g in p.repo_funcs('engine/') for n, cfid, nm in g.calls() if cfid == c.id]
            if not sites:
                continue            # only run by an enclosing implicit constructor after zero-initialisation (value-initialised slots)
            n_c += 1
            inited = {i.get('field') for i in inits}
            assigned = set()
            for g in [c] + [p.funcs[x] for x in p.reachable_from([c.id]) if x in p.funcs and p.funcs[x].cls == rn]:
                for x in g.all_nodes():
                    rr = x.get('ref') or {}
                    if rr.get('k') == 'Field' and rr['n'].rsplit('::', 1)[0] == rn and access_kind(g, x) == 'write':
                        assigned.add(short(rr['n']))
            miss = [fl['name'] for fl in risky if fl['name'] not in inited and fl['name'] not in assigned]
            ctx.ob('C10.B12.members-initialised', c.id.split('(')[0] + '(' + ','.join(q['name'] or '' for q in c.params) + ')', not miss,
                   'objects of %s are copied; this constructor gives every bool/enum member a value%s'
                   % (short(rn), '' if not miss else ' — left indeterminate: %s (copying an invalid bool/enum is undefined)' % ', '.join(miss)),
                   site=c.loc(), sample=(n_c <= 2 or bool(miss)))
    ctx.floor('C10.B12.members-initialised', n_c, 3, 'constructors of copied classes with bool/enum members')


def _is_scalar(t):
    t = t.replace('const ', '')
    if t.endswith('*') or '[' in t:
        return t.endswith('*')
    return t in ('int', 'long', 'unsigned int', 'unsigned long', 'bool', 'char', 'double', 'float', 'short',
                 'unsigned char', 'long long', 'unsigned long long') or t.startswith('engine::') and \
        t.split('::')[-1] in ('Square', 'Color', 'Piece', 'PieceKind', 'Rank', 'File', 'Castling', 'Value', 'Move',
                              'Depth', 'Bitboard', 'Result', 'Ray', 'Duration')
