"""C19 — book lookups return exactly what the book file says.

R1 DOM    check-after-read: every use of the record buffer is governed by a stream test made after the read;
          one insertion per complete record, unconditionally.
R2 TABLE  record layout: read size = buffer size = 16; key bytes 0-7 big-endian, move 8-9, weight 10-11, each
          byte masked; move-code fields; promotion code -> piece kind; argument wiring of create_promotion.
R3        decode_move's castling table (king on e1/e8 moving to the rook or the castled square), else unchanged.
R4        selection: `best` = max_element by weight over the key's records; `random` = cumulative walk that
          selects the first record whose cumulative weight exceeds a sample drawn from [0, sum) — so zero-weight
          records are never selected — with the all-zero case handed back to the search; both answer
          decode_move(<selected record>.first).
R5        who consults the book: start_searching probes with hash(position), answers the book move only when there
          is one, otherwise searches; the policy option selects the sampler.
Not decided: the uniformity of the random source (modulo bias of `% sum`), i.e. exact proportionality."""
import re

from facts import AnalysisBroken
from prog import walk, kids, short
from rules import pack
from rules.atoms import cn, conj, disj, facts_atoms, norm_atom, _unbool, flatten
from rules.common import strip_casts, const_of, guard_facts
from rules.effects import single_def

LEVEL = 'other'
EXPLANATION = ('Partial: reader discipline, record layout, decode table and the selection function of both policies are decided '
               'structurally; exact proportionality of the random policy additionally needs a uniform sample, which `% sum` only approximates.')
E = 'engine::'
PB = E + 'PolyglotBook::'


def check(ctx):
    p = ctx.prog()
    ctor = p.fn(PB + 'PolyglotBook', nparams=2)
    ctx.analysed(ctor)
    reader(ctx, p, ctor)
    layout(ctx, p, ctor)
    decode(ctx, p)
    selection(ctx, p)
    consult(ctx, p)
    ctx.note('not decided: uniformity of `_dist(_gen) % sum_of_weights` (modulo bias), hence exact proportionality of the random policy')


def decl(f, name):
    d = [x for x in f.all_nodes() if x['k'] == 'VarDecl' and x.get('name') == name]
    return d[0] if len(d) == 1 else None


# ---- R1 -----------------------------------------------------------------------------------------------------------------------
def reader(ctx, p, f):
    reads = [n for n, c, nm in f.calls() if nm.startswith('std::basic_istream') and short(nm) == 'read']
    ctx.floor('C19.R1.reads', len(reads), 1, 'istream::read calls')
    for rd in reads:
        a = kids(rd)[1:]
        buf = _unbool(a[0])
        if not (buf.get('ref') or {}).get('n'):
            # read(reinterpret_cast<char*>(buffer), n): the buffer behind the cast
            refs_ = [x for x in walk(a[0]) if x['k'] == 'DeclRefExpr' and (x.get('ref') or {}).get('k') == 'Local']
            if len(refs_) == 1:
                buf = refs_[0]
        bufname = buf.get('ref', {}).get('n')
        bid = buf.get('ref', {}).get('id')
        if bufname is None:
            raise AnalysisBroken('C19: the destination of istream::read at %s is not a local buffer the rule can name' % f.loc(rd))
        bd = decl(f, bufname)
        size = const_of(strip_casts(a[1]))
        dims = None
        if bd is not None:
            t = bd.get('t') or ''
            if '[' in t:
                dims = int(t.split('[')[1].split(']')[0])
        ctx.ob('C19.R2.read-size', 'read(%s)' % bufname, size == 16 and dims == 16,
               'one read fetches one 16-byte record into a 16-byte buffer (size %s, buffer %s)' % (size, dims), site=f.loc(rd))
        stream = cn(f, kids(kids(rd)[0])[0]) if kids(kids(rd)[0]) else '?'
        uses = [x for x in f.all_nodes() if x.get('ref', {}).get('k') == 'Local' and x['ref'].get('id') == bid and not f.inside(x, rd)]
        ctx.floor('C19.R1.check-after-read', len(uses), 3, 'uses of the record buffer')
        bad = []
        for u in uses:
            ok = False
            for c, t in guard_facts(f, u):
                s = cn(f, c)
                # accepted idioms: the read itself as the governing condition; a later test of the stream state
                if f.inside(rd, c) and t and '!' not in s.split('read')[0]:
                    ok = True
                elif f.cfg.node_dominates(rd, c):
                    if s in (stream, stream + '.operatorbool()', stream + '.good()') and t:
                        ok = True
                    if s in (stream + '.fail()', stream + '.eof()', stream + '.bad()') and not t:
                        ok = True
                    if s.replace(' ', '') in ('(%s.gcount()==16)' % stream,) and t:
                        ok = True
            if not ok:
                bad.append(u)
        ctx.ob('C19.R1.check-after-read', 'read(%s)' % bufname, not bad,
               'all %d uses of the record buffer are governed by a test of the stream made after the read that filled it%s'
               % (len(uses), '' if not bad else ' — ungoverned at line(s) %s' % sorted({u.get('l') for u in bad})),
               site=f.loc(bad[0]) if bad else f.loc(rd))
    # one insertion per record
    pb = [n for n, c, nm in f.calls() if short(nm) in ('push_back', 'emplace_back') and '_hashmap' in cn(f, n)]
    okp = False
    if len(pb) == 1 and len(reads) == 1:
        loops = [a for a in f.ancestors(pb[0]) if a['k'] in ('WhileStmt', 'ForStmt', 'DoStmt')]
        g = facts_atoms(f, guard_facts(f, pb[0]))
        only_read = all('read(' in str(a) or 'stream' in str(a) for a in g)
        okp = len(loops) == 1 and only_read and cn(f, pb[0]).replace('this.', '').startswith(('_hashmap[key].push_back(make_pair(', '_hashmap[key].emplace_back('))
        # nothing else adds records
    others = [n for n, c, nm in f.calls() if short(nm) in ('push_back', 'emplace_back', 'insert', 'emplace') and n not in pb[:1] and '_hashmap' in cn(f, n)]
    ctx.ob('C19.R1.one-insert-per-record', 'constructor', okp and not others,
           'each complete record read is appended exactly once, under its own key, with no other condition', site=f.loc(pb[0]) if pb else f.loc())
    writers = {g.name for g, x, k in p.field_accesses(E + 'PolyglotBook', '_hashmap') if k in ('write', 'rmw', 'addr', 'call') and
               not (short(g.name) in ('contains', 'get_random_move', 'get_best_move'))}
    ctx.ob('C19.R1.single-writer', '_hashmap', writers <= {PB + 'PolyglotBook'},
           'only the reading constructor changes the in-memory book (%s)' % sorted(short(w) for w in writers), site='engine/polyglot.cpp')


# ---- R2 -----------------------------------------------------------------------------------------------------------------------
def byte_terms(f, e, buf, prog=None):
    """OR of (buf[k] & 0xFF) << s -> {k: s}; None when a term has another shape (unmasked byte!)"""
    if prog is not None:
        v = pack.byte_value(prog, f, e, buf)
        if v is None:
            raise AnalysisBroken('C19.R2: the composition of a record field from the buffer at %s is outside the byte-term domain '
                                 '(OR/shift/mask of buffer bytes, constant-bound loops, helpers)' % f.loc(e))
        return v['b'] if isinstance(v, dict) else str(v[1])
    out = {}
    for t in pack.flatten_or(e):
        tk = pack.term(t)
        if tk is None:
            return None
        x, s = tk
        x = _unbool(x)
        if x['k'] != 'BinaryOperator' or x.get('op') != '&':
            return None
        a, b = [_unbool(y) for y in kids(x)]
        if const_of(b) != 0xFF:
            a, b = b, a
        if const_of(b) != 0xFF or a['k'] != 'ArraySubscriptExpr' or cn(f, kids(a)[0]) != buf:
            return None
        k = const_of(_unbool(kids(a)[1]))
        if k is None or k in out:
            return None
        out[k] = s
    return out


def layout(ctx, p, f):
    kd, mc, wt = decl(f, 'key'), decl(f, 'move_code'), decl(f, 'weight')
    if kd is None or mc is None or wt is None:
        raise AnalysisBroken('C19: key/move_code/weight locals of the reader not found')
    bt = byte_terms(f, kids(kd)[0], 'entry', p)
    ctx.ob('C19.R2.key-bytes', 'key', bt == {k: 56 - 8 * k for k in range(8)},
           'the key is bytes 0..7 of the record, most significant first, each masked to 8 bits (%s)' % bt, site=f.loc(kd))
    mt = byte_terms(f, kids(mc)[0], 'entry', p)
    ctx.ob('C19.R2.move-bytes', 'move_code', mt == {8: 8, 9: 0}, 'the move code is bytes 8..9, big-endian, masked (%s)' % mt, site=f.loc(mc))
    wtt = byte_terms(f, kids(wt)[0], 'entry', p)
    ctx.ob('C19.R2.weight-bytes', 'weight', wtt == {10: 8, 11: 0}, 'the weight is bytes 10..11, big-endian, masked (%s)' % wtt, site=f.loc(wt))
    fields = {}
    for nm in ('fromRank', 'fromFile', 'toRank', 'toFile', 'promotion_code'):
        d = decl(f, nm)
        if d is None:
            raise AnalysisBroken('C19: local %s of the reader not found' % nm)
        fx = pack.extract_field(kids(d)[0])
        fields[nm] = (fx[0], fx[1], cn(f, fx[2])) if fx else None
    want = {'toFile': (0, 7, 'move_code'), 'toRank': (3, 7, 'move_code'), 'fromFile': (6, 7, 'move_code'), 'fromRank': (9, 7, 'move_code'),
            'promotion_code': (12, 7, 'move_code')}
    ctx.ob('C19.R2.move-fields', 'move_code', fields == want,
           'to-file bits 0-2, to-rank 3-5, from-file 6-8, from-rank 9-11, promotion 12-14 (%s)' % fields, site=f.loc(mc))
    mv = decl(f, 'move')
    okm = mv is not None and cn(f, kids(mv)[0]) == 'create_promotion(make_square(fromRank,fromFile),make_square(toRank,toFile),promotion)'
    ctx.ob('C19.R2.move-wiring', 'move', okm, 'the move is built from (from-rank, from-file) to (to-rank, to-file) with the decoded promotion', site=f.loc(mv) if mv else f.loc())
    pk = p.enum(E + 'PieceKind')
    pr = decl(f, 'promotion')
    asg = [x for x in f.all_nodes() if x['k'] in ('BinaryOperator', 'CXXOperatorCallExpr') and x.get('op') == '=' and
           cn(f, kids(x)[0] if x['k'] == 'BinaryOperator' else kids(x)[1]) == 'promotion']
    okp = pr is not None and const_of(strip_casts(kids(pr)[0])) == pk['NO_PIECE_KIND'] and len(asg) == 1
    if okp:
        rhs = cn(f, kids(asg[0])[-1])
        g = facts_atoms(f, [(c, t) for c, t in guard_facts(f, asg[0]) if 'promotion_code' in cn(f, c)])
        okp = rhs in ('(PAWN+promotion_code)', '(promotion_code+PAWN)') and g == frozenset({('ne', 'promotion_code', 0)}) and \
            [pk['KNIGHT'], pk['BISHOP'], pk['ROOK'], pk['QUEEN']] == [pk['PAWN'] + c for c in (1, 2, 3, 4)]
    ctx.ob('C19.R2.promotion-code', 'promotion', bool(okp),
           'promotion codes 1..4 mean knight, bishop, rook, queen (PAWN + code with the engine\'s kind numbering), 0 means none', site=f.loc(pr) if pr else f.loc())


# ---- R3 -----------------------------------------------------------------------------------------------------------------------
def decode(ctx, p):
    """decision table of decode_move over (origin square, target square, piece on the origin): a king on e1/e8 moving to the
    rook square or the castled square becomes the castling move of that wing; everything else is returned unchanged"""
    from rules.norm import Norm, decision, Unknown, eval_function
    f = p.fn(PB + 'decode_move')
    ctx.analysed(f)
    sq = p.enum(E + 'Square')
    pe = p.enum(E + 'Piece')
    ce = p.enum(E + 'Castling')
    origins = [sq['SQ_E1'], sq['SQ_E8'], sq['SQ_D1']]
    targets = [sq[x] for x in ('SQ_H1', 'SQ_G1', 'SQ_A1', 'SQ_C1', 'SQ_H8', 'SQ_G8', 'SQ_A8', 'SQ_C8', 'SQ_F1', 'SQ_E2')]
    pieces = [pe['W_KING'], pe['B_KING'], pe['W_QUEEN'], pe['NO_PIECE']]
    king_side = {sq['SQ_E1']: (sq['SQ_H1'], sq['SQ_G1']), sq['SQ_E8']: (sq['SQ_H8'], sq['SQ_G8'])}
    queen_side = {sq['SQ_E1']: (sq['SQ_A1'], sq['SQ_C1']), sq['SQ_E8']: (sq['SQ_A8'], sq['SQ_C8'])}
    owner = {sq['SQ_E1']: pe['W_KING'], sq['SQ_E8']: pe['B_KING']}
    bad = None
    rows = 0
    from rules.cases import effects_under as _eud
    try:
        for o in origins:
            for t in targets:
              for side_ in (0, 1):
                for pc in pieces:
                    if pc != pe['NO_PIECE'] and (pc >= pe['B_PAWN']) != bool(side_):
                        continue        # a book move is made by a piece of the side to move
                    val = {'from(move)': o, 'to(move)': t, 'position.piece_at(from(move))': pc, 'position.piece_at(%d)' % o: pc,
                           'position.color()': side_, 'rank(from(move))': o // 8, 'file(from(move))': o % 8,
                           'rank(to(move))': t // 8, 'file(to(move))': t % 8}
                    nm = Norm(f)
                    nm.val = val
                    try:
                        r = decision(f, val, nm)
                        got = nm.s(kids(r)[0]) if r is not None else None
                    except Unknown:
                        # a switch or another statement form: the effects of the body under the same valuation
                        eff = [e_ for e_ in _eud(f, kids(f.body), val) if e_.startswith('return ')]
                        if len(eff) != 1:
                            raise Unknown('the control flow of decode_move')
                        got = eff[0][len('return '):]
                    want = 'move'
                    if o in owner and pc == owner[o]:
                        if t in king_side[o]:
                            want = str(eval_function(p, 'engine::create_castling', [ce['KING_CASTLING']]))
                        elif t in queen_side[o]:
                            want = str(eval_function(p, 'engine::create_castling', [ce['QUEEN_CASTLING']]))
                    rows += 1
                    if got != want and bad is None:
                        bad = ('from %d to %d with piece %d' % (o, t, pc), got, want)
    except Unknown as u:
        raise AnalysisBroken('C19: decode_move depends on `%s`, which is not origin, target or the piece on the origin' % u)
    ctx.ob('C19.R3.decode-table', 'decode_move', bad is None and rows >= 100,
           'a king on e1/e8 moving to the rook square or the castled square becomes the castling move of that wing; every other move is returned '
           'unchanged (%d rows of origin x target x piece)%s' % (rows, '' if bad is None else ' — %s gives %s, expected %s' % bad), site=f.loc())
    ctx.ob('C19.R3.wing-codes', 'Castling', ce['KING_CASTLING'] == ce['W_OO'] | ce['B_OO'] and ce['QUEEN_CASTLING'] == ce['W_OOO'] | ce['B_OOO'],
           'KING_CASTLING / QUEEN_CASTLING denote the wings for both colours', site='engine/types.h')


# ---- R4 -----------------------------------------------------------------------------------------------------------------------
def selection(ctx, p):
    b = p.fn(PB + 'get_best_move')
    ctx.analysed(b)
    mv = decl(b, 'moves')
    okb = mv is not None and cn(b, kids(mv)[0]).replace('this.', '') == '_hashmap.at(key)'
    me = [n for n, c, nm in b.calls() if nm.startswith('std::max_element')]
    lam = [f for f in p.funcs.values() if f.id.startswith(b.name + '(') and 'operator()' in f.id and f.id != b.id and f.file == b.file]
    cmp_ok = False
    for l in lam:
        r = [x for x in l.all_nodes() if x['k'] == 'ReturnStmt']
        if len(r) == 1:
            s = cn(l, kids(r[0])[0])
            pn = [q['name'] for q in l.params]
            cmp_ok = len(pn) == 2 and s == '(%s.second<%s.second)' % (pn[0], pn[1])
    if not me:
        raise AnalysisBroken('C19: get_best_move does not pick its record with std::max_element; another way of finding the largest weight '
                             'is not something the rule can judge')
    okb = okb and len(me) == 1 and cmp_ok
    if okb:
        a = [cn(b, x) for x in kids(me[0])[1:3]]
        okb = a == ['moves.begin()', 'moves.end()']
        best = decl(b, 'best_move')
        rets = [x for x in b.all_nodes() if x['k'] == 'ReturnStmt']
        okb = okb and best is not None and _unbool(kids(best)[0]) is not None and 'max_element' in cn(b, kids(best)[0]) and \
            len(rets) == 1 and cn(b, kids(rets[0])[0]).replace('this.', '') == 'decode_move(best_move.first,position)'
    ctx.ob('C19.R4.best', 'get_best_move', bool(okb),
           'the best policy answers decode_move of the record with the largest weight among all records of the key (max_element, comparator on .second)',
           site=b.loc())

    r = p.fn(PB + 'get_random_move')
    ctx.analysed(r)
    mv = decl(r, 'moves')
    ok0 = mv is not None and cn(r, kids(mv)[0]).replace('this.', '') == '_hashmap.at(key)'
    # sum over all records
    sm = decl(r, 'sum_of_weights')
    adds = [x for x in r.all_nodes() if x['k'] == 'CompoundAssignOperator' and cn(r, kids(x)[0]) == 'sum_of_weights']
    fr = [x for x in r.all_nodes() if x['k'] == 'CXXForRangeStmt']
    oks = sm is not None and const_of(strip_casts(kids(sm)[0])) == 0 and len(adds) == 1 and adds[0].get('op') == '+=' and len(fr) == 1 and \
        r.inside(adds[0], fr[0])
    if oks:
        rng = [x for x in walk(fr[0]) if x['k'] == 'VarDecl' and x.get('name', '').startswith('__range')]
        ev = [x for x in walk(fr[0]) if x['k'] == 'VarDecl' and not x.get('name', '').startswith('__')]
        oks = len(rng) == 1 and cn(r, kids(rng[0])[0]) == 'moves' and len(ev) == 1 and cn(r, kids(adds[0])[1]) == ev[0]['name'] + '.second' and \
            not facts_atoms(r, [(c, t) for c, t in guard_facts(r, adds[0]) if '__begin' not in cn(r, c) and 'CXXRewrittenBinaryOperator' not in cn(r, c)])
    if not adds and sm is not None:
        # std::accumulate(moves.begin(), moves.end(), 0, [](int s, const auto& m) { return s + m.second; })
        init_ = _unbool(kids(sm)[0]) if kids(sm) else None
        acc_ = [x for x in walk(kids(sm)[0]) if (x.get('callee') or {}).get('n', '').startswith('std::accumulate')] if kids(sm) else []
        if len(acc_) == 1:
            a_ = kids(acc_[0])[1:]
            lam_ = [p.funcs.get(x.get('lambda')) for x in walk(acc_[0]) if x['k'] == 'LambdaExpr']
            ok_l = False
            if len(lam_) == 1 and lam_[0] is not None:
                rr = [x for x in lam_[0].all_nodes() if x['k'] == 'ReturnStmt']
                pn = [q['name'] for q in lam_[0].params]
                ok_l = len(rr) == 1 and len(pn) == 2 and cn(lam_[0], kids(rr[0])[0]) in ('(%s+%s.second)' % (pn[0], pn[1]), '(%s.second+%s)' % (pn[1], pn[0]))
            oks = len(a_) >= 4 and [cn(r, x) for x in a_[:2]] == ['moves.begin()', 'moves.end()'] and const_of(strip_casts(a_[2])) == 0 and ok_l
        else:
            raise AnalysisBroken('C19: sum_of_weights of get_random_move is computed in a form the rule does not know')
    ctx.ob('C19.R4.sum', 'get_random_move', bool(ok0 and oks), 'sum_of_weights is the sum of the weights of all records of the key', site=r.loc())
    # sample in [0, sum): x % sum_of_weights, guarded by sum > 0
    sd = decl(r, 'sample')
    base = None
    oksa = False
    if sd is not None:
        e = _unbool(kids(sd)[0])
        off = 0
        if e['k'] == 'BinaryOperator' and e.get('op') == '+' and const_of(_unbool(kids(e)[1])) is not None:
            off = const_of(_unbool(kids(e)[1]))
            e = _unbool(kids(e)[0])
        if e['k'] == 'BinaryOperator' and e.get('op') == '%' and cn(r, kids(e)[1]) == 'sum_of_weights':
            base = off
            src = cn(r, kids(e)[0]).replace('this.', '')
            g = facts_atoms(r, guard_facts(r, sd))
            oksa = ('ge', 'sum_of_weights', 1) in g and '_dist' in src and '_gen' in src
    ctx.ob('C19.R4.sample-range', 'get_random_move', oksa and base in (0, 1),
           'the sample is <random> %% sum_of_weights%s, computed only when the sum is positive' % ('' if not base else ' + %d' % base), site=r.loc())
    # the random source spans far more than any possible sum (sum is an int): default-constructed distribution or explicit [0, >= INT_MAX]
    srcs = []
    for f in p.funcs.values():
        if f.cls == E + 'PolyglotBook':
            for i in f.d.get('inits', []):
                if i.get('field') == '_dist' and i.get('init') is not None:
                    a = [const_of(strip_casts(x)) for x in kids(i['init'])]
                    srcs.append((f, a))
    # the only non-constructor use is the draw `_dist(_gen)`; an assignment or param() call would change the range
    wr = []
    for g, x, k in p.field_accesses(E + 'PolyglotBook', '_dist'):
        if k == 'ctorinit':
            continue
        par = g.parent(x)
        while par is not None and par['k'] in ('ImplicitCastExpr', 'MemberExpr'):
            par = g.parent(par)
        if not (par is not None and par['k'] == 'CXXOperatorCallExpr' and par.get('op') == '()'):
            wr.append((g, x))
    oksrc = bool(srcs) and not wr and all(a == [] or (len(a) == 2 and a[0] == 0 and a[1] is not None and a[1] >= 2 ** 31 - 1) for f, a in srcs)
    ctx.ob('C19.R4.source-range', '_dist', oksrc,
           'the distribution feeding the sample is default-constructed (full range) or spans [0, >= INT_MAX], so `%% sum` can reach every value '
           'below any sum of 16-bit weights (%s)' % [a for f, a in srcs], site='engine/polyglot.cpp')
    zero = [x for x in r.all_nodes() if x['k'] == 'ReturnStmt' and cn(r, kids(x)[0]) == 'NO_MOVE']
    okz = len(zero) == 1 and ('le', 'sum_of_weights', 0) in facts_atoms(r, guard_facts(r, zero[0]))
    ctx.ob('C19.R4.all-zero', 'get_random_move', okz, 'when no record has positive weight no book move is offered (NO_MOVE)', site=r.loc())
    # the cumulative walk, in either of two spellings:
    #   A  while (i < n && acc + W[i] <=|< sample) acc += W[i++];             (skip a record while ...)
    #   B  for (; i < n; ++i) { acc += W[i]; if (sample <|<= acc) break; }     (stop at the first record with ...)
    # with a 0-based sample the selected record must be the first whose cumulative weight is > sample:
    #   A needs `<=` (1-based: `<`), B needs `sample < acc` (1-based: `sample <= acc`).
    import re as _re
    from rules.norm import Norm
    nmr = Norm(r, inline=False)
    rets = [x for x in r.all_nodes() if x['k'] == 'ReturnStmt' and x not in zero]
    ans = nmr.s(kids(rets[0])[0]).replace('this.', '') if len(rets) == 1 else ''
    m = _re.fullmatch(r'decode_move\(moves\[(\w+)\]\.first,position\)', ans)
    okr = bool(m)
    ctx.ob('C19.R4.answer', 'get_random_move', okr, 'the answer is decode_move of the selected record\'s move', site=r.loc())
    okw = False
    why = 'cumulative walk not recognised'
    loops = [x for x in r.all_nodes() if x['k'] in ('WhileStmt', 'ForStmt')]
    if m and len(loops) == 1 and base is not None:
        iv = m.group(1)
        lp = loops[0]
        condn = kids(lp)[0] if lp['k'] == 'WhileStmt' else lp['ch'][2]
        body = kids(lp)[1] if lp['k'] == 'WhileStmt' else lp['ch'][4]
        cond = nmr.conj(condn) if condn is not None else frozenset()
        accs = [x for x in walk(body) if x['k'] == 'CompoundAssignOperator' and x.get('op') == '+=' and
                _re.fullmatch(r'moves\[(\+\+\()?%s\)?\]\.second' % iv, nmr.s(kids(x)[1]).replace('(%s)' % iv, iv) if False else nmr.s(kids(x)[1]))]
        accs = [x for x in walk(body) if x['k'] == 'CompoundAssignOperator' and x.get('op') == '+=' and
                nmr.s(kids(x)[1]) in ('moves[%s].second' % iv, 'moves[++(%s)].second' % iv)]
        idd = decl(r, iv)
        iv0 = idd is not None and kids(idd) and const_of(strip_casts(kids(idd)[0])) == 0
        inrange = ('<', iv, 'moves.size()') in cond
        if len(accs) == 1 and iv0 and inrange:
            acc = nmr.s(kids(accs[0])[0])
            ad = decl(r, acc)
            acc0 = ad is not None and kids(ad) and const_of(strip_casts(kids(ad)[0])) == 0
            rest = [a_ for a_ in cond if a_ != ('<', iv, 'moves.size()')]
            if lp['k'] == 'WhileStmt' and len(rest) == 1 and acc0:
                a_ = rest[0]
                lhs = '(%s+moves[%s].second)' % (acc, iv)
                lhs2 = '(moves[%s].second+%s)' % (iv, acc)
                if a_[0] in ('<', '<=') and a_[1] in (lhs, lhs2) and a_[2] == 'sample':
                    op = a_[0]
                    okw = (base == 0 and op == '<=') or (base == 1 and op == '<')
                    why = 'a record is skipped exactly while its cumulative weight is %s the %d-based sample' % (op, base) if okw else \
                        ('with a sample in [%d, sum%s) the walk must skip a record while cumulative weight %s sample, but it tests %s: '
                         'a zero-weight first record is selected for the smallest sample and the last record loses one outcome'
                         % (base, '' if base == 0 else '+1', '<=' if base == 0 else '<', op))
                    if okw and not _walk_step_ok(r, body, acc, iv):
                        okw = False
                        why = 'the step must add the weight of record %s and then advance %s' % (iv, iv)
                else:
                    raise AnalysisBroken('C19: selection loop of get_random_move has an unrecognised continuation condition %s' % sorted(map(str, cond)))
            elif lp['k'] == 'ForStmt' and not rest and acc0:
                brk = [x for x in walk(body) if x['k'] == 'BreakStmt']
                inc = lp['ch'][3]
                inc_ok = inc is not None and strip_casts(inc).get('op') == '++' and nmr.s(kids(strip_casts(inc))[-1]) == iv
                if len(brk) == 1 and inc_ok:
                    g = nmr.facts([(c, t) for c, t in guard_facts(r, brk[0]) if r.inside(c, body)])
                    strict = frozenset({('<', 'sample', acc)})
                    weak = frozenset({('<=', 'sample', acc)})
                    if g in (strict, weak) and r.cfg.node_dominates(accs[0], brk[0]):
                        okw = (base == 0 and g == strict) or (base == 1 and g == weak)
                        why = 'the walk stops at the first record whose cumulative weight is %s the %d-based sample' % ('>' if g == strict else '>=', base) \
                            if okw else 'with a %d-based sample the walk must stop when sample %s cumulative weight' % (base, '<' if base == 0 else '<=')
                    else:
                        raise AnalysisBroken('C19: selection loop of get_random_move stops on an unrecognised condition %s' % sorted(map(str, g or [])))
            else:
                raise AnalysisBroken('C19: selection loop of get_random_move is written in a form the rule does not know')
    elif m and base is not None:
        raise AnalysisBroken('C19: get_random_move selects its record in a form the rule does not know')
    if not okw and why == 'cumulative walk not recognised':
        raise AnalysisBroken('C19: the selection walk of get_random_move is written in a form the rule does not know')
    ctx.ob('C19.R4.cumulative-walk', 'get_random_move', okw,
           'the random policy selects the first record whose cumulative weight exceeds the sample, so each record is selected for exactly '
           '`weight` of the `sum` samples and a zero-weight record for none — ' + why, site=r.loc(loops[0]) if loops else r.loc())


def _walk_step_ok(r, body, acc='w', iv='i'):
    """acc += moves[i++].second : adds the weight of record i, then advances i (also as two statements)"""
    b = _unbool(body)
    if b['k'] == 'CompoundStmt' and len(kids(b)) == 1:
        b = _unbool(kids(b)[0])
    if b['k'] == 'CompoundStmt' and len(kids(b)) == 2:
        s = [cn(r, x) for x in kids(b)]
        return s in (['(%s+=moves[%s].second)' % (acc, iv), '++(%s)' % iv],)
    if b['k'] != 'CompoundAssignOperator' or b.get('op') != '+=' or cn(r, kids(b)[0]) != acc:
        return False
    incs = [x for x in walk(kids(b)[1]) if x['k'] == 'UnaryOperator' and x.get('op') == '++']
    if len(incs) != 1 or cn(r, kids(incs[0])[0]) != iv:
        return False
    # must be the post-increment: the subscript uses the old i
    return bool(incs[0].get('post'))


# ---- R5 -----------------------------------------------------------------------------------------------------------------------
def consult(ctx, p):
    # contains(key) answers whether the loaded book has records for the key
    from rules.norm import Norm as _Nc
    cf = p.fn(PB + 'contains')
    ctx.analysed(cf)
    rets = [n for n in cf.all_nodes() if n['k'] == 'ReturnStmt' and kids(n)]
    if len(rets) != 1:
        raise AnalysisBroken('C19: contains() has %d returns' % len(rets))
    a = _Nc(cf).atom(kids(rets[0])[0])
    yes = (('ne', '_hashmap.end()', '_hashmap.find(key)'), ('ge', '_hashmap.count(key)', 1), ('truthy', '_hashmap.count(key)', True),
           ('truthy', '_hashmap.contains(key)', True))
    no = (('eq', '_hashmap.end()', '_hashmap.find(key)'), ('in', '_hashmap.count(key)', frozenset({0})), ('truthy', '_hashmap.count(key)', False),
          ('truthy', '_hashmap.contains(key)', False))
    if a not in yes and a not in no:
        raise AnalysisBroken('C19: contains() answers `%s`, which the rule does not know' % (a,))
    ctx.ob('C19.R5.contains', 'contains', a in yes, 'contains(key) is true exactly when the book holds records under the key (%s)' % (a,),
           site=cf.loc(rets[0]))
    f = p.fn(E + 'start_searching')
    ctx.analysed(f)
    kd = decl(f, 'key')
    okk = kd is not None and cn(f, kids(kd)[0]) == 'hash(uci.position)'
    # per case {position in the book, policy flag, the book offers a move}: what start_searching does (effects under the
    # valuation): the sampler of the policy is asked with the key and the position; its move is answered when there is one;
    # otherwise the search runs; never both, never neither
    from rules.cases import effects_under as _eus, effects_all as _eall
    RND, BST = 'uci.polyglot.get_random_move(key,uci.position)', 'uci.polyglot.get_best_move(key,uci.position)'
    bad_s = None
    for c_ in (0, 1):
        for fl_ in (0, 1):
            for ans_ in (0, 1):
                val = {'uci.polyglot.contains(key)': c_, 'uci.polyglot_sample_random_move': fl_, RND: 77 if ans_ else 0, BST: 88 if ans_ else 0}
                for val_, flags_, eff in _eall(f, kids(f.body), val, keep=('key',)):
                    outs_ = [e_ for e_ in eff if '"bestmove ' in e_]
                    gos_ = [e_ for e_ in eff if e_.endswith('.go()') or e_.endswith('go()')]
                    rest_ = [e_ for e_ in eff if e_ not in outs_ and e_ not in gos_ and not re.fullmatch(r'\(\w+=\d+\)', e_) and e_ != 'return ' and
                             not any(re.fullmatch(r'\(%s=\d+\)' % re.escape(fl__), e_) for fl__ in flags_)]
                    if rest_:
                        raise AnalysisBroken('C19: start_searching does `%s`, which the rule does not know' % rest_[0][:120])
                    if c_ and ans_:
                        want_mv = 77 if fl_ else 88
                        ok_ = len(outs_) == 1 and not gos_ and 'uci.position.uci(%d)' % want_mv in outs_[0]
                    else:
                        ok_ = not outs_ and len(gos_) == 1
                    if not ok_ and bad_s is None:
                        bad_s = 'in the book=%s, random policy=%s, a move offered=%s%s: answers %s, searches %d time(s)' % (
                            bool(c_), bool(fl_), bool(ans_), ''.join(', %s=%s' % kv for kv in sorted(flags_.items())), [o_[-40:] for o_ in outs_], len(gos_))
    okc = True
    ctx.ob('C19.R5.probe', 'start_searching', bool(okk and okc),
           'the book is probed with the key of the current position', site=f.loc())
    ctx.ob('C19.R5.answer-or-search', 'start_searching', bad_s is None,
           'the sampler of the configured policy is asked; a book move is answered only when the book offered one; otherwise the search '
           'runs (exactly one of the two)%s' % ('' if bad_s is None else ' — ' + bad_s), site=f.loc())
    # the policy option
    setters = [(g, x) for g, x, k in p.field_accesses(E + 'Uci', 'polyglot_sample_random_move') if k in ('write', 'rmw')]
    oks = bool(setters)
    for g, x in setters:
        rhs = _unbool(kids(g.parent(x))[-1])
        lits = [y.get('s') for y in walk(rhs) if y['k'] == 'StringLiteral']
        oks = oks and rhs.get('op') == '==' and lits == ['random'] and 'option' in cn(g, rhs)
    ctx.ob('C19.R5.policy-flag', 'Polyglot Sample', oks, 'the flag is set from the option value "random"', site='engine/uci.cpp')
