"""C03 — unmaking a move restores the position exactly.

R1 undo-record completeness: every Position field do_move/do_null_move may
write is restored by undo_move/undo_null_move — board primitives are paired
path class by path class (per square, the undo operations are the reversed
inverses of the do operations), counters are inc/dec-paired on every path,
overwritten fields are saved before the first write, carried in the MoveInfo
and assigned back from the matching accessor. R2 PACK(MoveInfo).
R3 every make on a position that outlives the caller is followed by the
matching unmake on every path. R4 observers do not write the position."""
from facts import AnalysisBroken
from prog import walk, kids, short, access_kind
from rules import pack
from rules.common import strip_casts, const_of, guard_facts, written_value, expr_key
from rules.effects import canon, summaries, single_def

LEVEL = 'proof'
EXPLANATION = ('Obligation list: (1) per path class of do_move/undo_move the board primitives are inverse per square; '
               '(2) counters are paired on every path; (3) overwritten fields are saved-before-write, packed and restored; '
               '(4) MoveInfo bit layout agrees between packer and accessors and fits its domains; (5) every do_move/'
               'do_null_move on a shared Position is matched by the undo with the same move and the returned MoveInfo on '
               'all paths; (6) const observers and the generator/evaluator/orderer never write Position state.')

PRIMS = ('move_piece', 'remove_piece', 'add_piece')
POS = 'engine::Position'


def _facts_key(s):
    """normalise (X!=C) to ((X==C), flipped)"""
    return s


def _board_events(fn):
    def ev(f, n):
        c = n.get('callee')
        if c and c['n'].startswith(POS + '::') and short(c['n']) in PRIMS:
            args = kids(n)[1:]
            return (short(c['n']),) + tuple(canon(f, a, keep=('side',)) for a in args)
        return None
    return ev


def _relevant_facts(fn, event_nodes):
    rel = set()
    for n in event_nodes:
        for cond, k, termk, blk in fn.cfg.guards(n):
            rel.add(cond['i'])

    def fact(f, cond, truth):
        # cond arrives `!`-normalised; identify by node id of the stripped expr
        c = strip_casts(cond)
        if c['i'] not in rel:
            # the un-normalised parent may be registered
            par = f.parent(c)
            if par is None or par['i'] not in rel:
                return None
        s = canon(f, c, keep=('side',))
        val = truth
        if s.startswith('(') and '!=' in s and s.count('!=') == 1 and '==' not in s:
            s = s.replace('!=', '==')
            val = not truth
        return (s, val)
    return fact


def _classify(facts, who):
    """facts: frozenset of (canonical cond, bool) -> class vector"""
    d = dict(facts)
    cas = d.get('(castling(move)==NO_CASTLING)')
    if cas is None:
        raise AnalysisBroken('%s: a path is not governed by castling(move) != NO_CASTLING' % who)
    v = {}
    if cas is False:
        kk = d.get('(castling(move)==KING_CASTLING)')
        if kk is None:
            raise AnalysisBroken('%s: castling arm without wing test' % who)
        v['castling'] = 'K' if kk else 'Q'
        return v
    v['castling'] = None
    v['promo'] = not d.get('(promotion(move)==NO_PIECE_KIND)', True)
    return v, d


CASES = [('K', None, None, None), ('Q', None, None, None), (None, True, False, False), (None, False, False, False),
         (None, False, False, True), (None, False, True, False), (None, False, True, True)]


RECORDS = []


def board_path_classes(p):
    """(dmap, umap, n_event_sites): case vector (castling wing, e.p., promotion, capture) -> {board-primitive event sequence} of
    do_move / undo_move. Events carry their arguments in normal form for White and for Black as mover ("w;b"); the walk is by
    semantic case (rules/cases.py), so if/else versus conditional expressions makes no difference."""
    from rules.cases import case_events
    do = p.fn(POS + '::do_move')
    undo = p.fn(POS + '::undo_move')
    cas = p.enum('engine::Castling')
    kd = p.enum('engine::PieceKind')
    pc = p.enum('engine::Piece')

    def is_prim(nm):
        return nm.startswith(POS + '::') and short(nm) in PRIMS

    def both(fn, valf, what):
        evs = []
        for c in (0, 1):
            evs.append(case_events(fn, valf(c), {'side': c}, is_prim, what))
        w, b = evs
        if [e[0] for e in w] != [e[0] for e in b] or [len(e) for e in w] != [len(e) for e in b]:
            raise AnalysisBroken('%s: the two colours execute different primitives in the case %s' % (fn.name, what))
        return tuple((ew[0],) + tuple('%s;%s' % (x, y) for x, y in zip(ew[1:], eb[1:])) for ew, eb in zip(w, b))

    dmap, umap = {}, {}
    for v in CASES:
        wing, ep, promo, cap = v
        what = 'castling-%s' % wing if wing else 'ep=%d,promo=%d,capture=%d' % (ep, promo, cap)

        def dval(c, wing=wing, ep=ep, promo=promo, cap=cap):
            mover = kd['PAWN'] if (ep or promo) else kd['KNIGHT']
            victim_kind = kd['ROOK'] if cap else kd['NO_PIECE_KIND']
            victim = (pc['B_ROOK'] if c == 0 else pc['W_ROOK']) if cap else pc['NO_PIECE']
            return {'castling(move)': cas['KING_CASTLING'] if wing == 'K' else cas['QUEEN_CASTLING'] if wing == 'Q' else cas['NO_CASTLING'],
                    'get_piece_kind(_board[from(move)])': mover, 'make_piece_kind(_board[from(move)])': mover,
                    ('eq',) + tuple(sorted(['_enpassant_square', 'to(move)'])): bool(ep),
                    '_board[to(move)]': victim, 'make_piece_kind(_board[to(move)])': victim_kind, 'get_piece_kind(_board[to(move)])': victim_kind,
                    'promotion(move)': kd['QUEEN'] if promo else kd['NO_PIECE_KIND']}

        def uval(c, wing=wing, ep=ep, promo=promo, cap=cap):
            return {'castling(move)': cas['KING_CASTLING'] if wing == 'K' else cas['QUEEN_CASTLING'] if wing == 'Q' else cas['NO_CASTLING'],
                    'enpassant(moveinfo)': 1 if ep else 0, 'promotion(move)': kd['QUEEN'] if promo else kd['NO_PIECE_KIND'],
                    'captured_piece(moveinfo)': kd['ROOK'] if cap else kd['NO_PIECE_KIND']}
        dmap[v] = {both(do, dval, what)}
        umap[v] = {both(undo, uval, what)}
        # what do_move writes into the undo record in this case (undo_move is walked under exactly these values)
        for c in (0, 1):
            rec = case_events(do, dval(c), {'side': c}, lambda nm_: nm_ == 'engine::create_moveinfo', what)
            RECORDS.append((what, c, rec, kd['ROOK'] if cap else kd['NO_PIECE_KIND'], 1 if ep else 0))
    n_sites = len([1 for fn in (do, undo) for n, cfid, nm in fn.calls() if is_prim(nm)])
    return dmap, umap, n_sites


def check(ctx):
    p = ctx.prog()
    do = p.fn(POS + '::do_move')
    undo = p.fn(POS + '::undo_move')
    dn = p.fn(POS + '::do_null_move')
    un = p.fn(POS + '::undo_null_move')
    for f in (do, undo, dn, un):
        ctx.analysed(f)
    cm = p.fn('engine::create_moveinfo')

    PIECES.update(p.enum('engine::Piece'))
    del RECORDS[:]
    dmap, umap, n_ev = board_path_classes(p)
    cmf = p.fn('engine::create_moveinfo')
    pnames = [q['name'] for q in cmf.params]
    if 'captured' not in pnames or 'enpassant' not in pnames:
        raise AnalysisBroken('create_moveinfo: parameters captured/enpassant not found (%s)' % pnames)
    ic, ie = pnames.index('captured'), pnames.index('enpassant')
    for what, c, rec, want_c, want_e in RECORDS:
        if want_e and len(rec) == 1 and len(rec[0]) == 1 + len(pnames) and rec[0][1 + ic] != '0' and rec[0][1 + ie] in ('1', 'true'):
            raise AnalysisBroken('do_move records captured kind %s for an en-passant capture; undo_move is only modelled for the '
                                 'record the reference tree writes (kind 0, flag set)' % rec[0][1 + ic])
        ok = len(rec) == 1 and len(rec[0]) == 1 + len(pnames) and rec[0][1 + ic] == str(want_c) and rec[0][1 + ie] in (str(want_e), 'true' if want_e else 'false')
        ctx.ob('C03.R1.record-content', '%s:%s' % (what, 'w' if c == 0 else 'b'), ok,
               'in this case do_move records the captured kind (%d) and the e.p. flag (%d) that undo_move acts on (recorded: %s)'
               % (want_c, want_e, rec), site=do.loc())
    ctx.floor('C03.R1.board-events', n_ev, 16, 'board primitive call sites in do/undo')
    ctx.info['do_path_classes'] = len(dmap)
    ctx.floor('C03.R1.path-classes', len(dmap), 7, 'do_move path classes')
    for v in sorted(dmap, key=str):
        name = 'castling-%s' % v[0] if v[0] else 'ep=%d,promo=%d,capture=%d' % (v[1], v[2], v[3])
        ds = dmap[v]
        us = umap.get(v)
        if len(ds) != 1 or us is None or len(us) != 1:
            ctx.ob('C03.R1.board-inverse', name, False,
                   'path class %s: do_move has %d event sequences, undo_move %s' % (name, len(ds), None if us is None else len(us)),
                   site=do.loc())
            continue
        dev, uev = next(iter(ds)), next(iter(us))
        ok, why = _inverse(dev, uev, v)
        ctx.ob('C03.R1.board-inverse', name, ok,
               'path class %s: per square, undo_move applies the reversed inverses of do_move\'s primitives (%s)' % (name, why),
               site=undo.loc(), detail={'do': [list(e) for e in dev], 'undo': [list(e) for e in uev]})
    ctx.assume('A-EP: on an en-passant capture the target square is empty and the square behind it holds an enemy pawn')
    ctx.assume('A-PROMO: a move with a promotion kind is made by a pawn of the side to move; from(move) != to(move)')

    # `side` denotes the mover in both functions
    sd = [n for n in do.all_nodes() if n['k'] == 'VarDecl' and n.get('name') == 'side']
    su = [n for n in undo.all_nodes() if n['k'] == 'VarDecl' and n.get('name') == 'side']
    flips_d = [n for n, cfid, nm in do.calls() if nm == POS + '::change_current_side']
    flips_u = [n for n, cfid, nm in undo.calls() if nm == POS + '::change_current_side']
    ok = len(sd) == 1 and len(su) == 1 and len(flips_d) == 1 and len(flips_u) == 1 and \
        canon(do, kids(sd[0])[0]) == '_current_side' and canon(undo, kids(su[0])[0]) == '_current_side' and \
        do.cfg.node_dominates(do.parent(sd[0]), flips_d[0]) and undo.cfg.node_dominates(flips_u[0], undo.parent(su[0])) and \
        do.cfg.node_postdominates(flips_d[0], do.parent(sd[0])) and \
        not _writes_local(do, sd[0]['id']) and not _writes_local(undo, su[0]['id'])
    ctx.ob('C03.R1.mover-frame', 'side', ok,
           '`side` is the mover in both functions: read before the flip in do_move, after the flip in undo_move, flipped exactly once each',
           site=undo.loc(su[0]) if su else undo.loc())

    # ---- R1b counters and toggles ---------------------------------------------------------------------
    for dfn, ufn, tag in ((do, undo, 'move'), (dn, un, 'null')):
        for fld in ('_ply_counter', '_history_counter', '_half_move_counter'):
            dws = [(n, k) for f, n, k in p.field_accesses(POS, fld) if f is dfn and k in ('write', 'rmw')]
            uws = [(n, k) for f, n, k in p.field_accesses(POS, fld) if f is ufn and k in ('write', 'rmw')]
            if not dws and not uws:
                continue
            dk = [_step_kind(dfn, n) for n, k in dws]
            uk = [_step_kind(ufn, n) for n, k in uws]
            if all(x == 'inc' for x in dk) and dk:
                # incremented exactly once on every path  <->  decremented exactly once on every path
                ok = _once_every_path(dfn, [n for n, k in dws]) and uk == ['dec'] * len(uk) and uk and \
                    _once_every_path(ufn, [n for n, k in uws])
                ctx.ob('C03.R1.counter-paired', '%s:%s' % (tag, fld), ok,
                       '%s is incremented exactly once on every path of %s and decremented exactly once on every path of %s'
                       % (fld, short(dfn.name), short(ufn.name)), site=ufn.loc(uws[0][0]) if uws else ufn.loc())
            else:
                # arbitrary overwrite: saved before the first write, packed, restored from the accessor
                ok, why = _saved_restored(p, dfn, ufn, cm, fld)
                ctx.ob('C03.R1.saved-restored', '%s:%s' % (tag, fld), ok,
                       '%s: %s' % (fld, why), site=ufn.loc())
        for fld in ('_castling_rights', '_enpassant_square'):
            dws = [n for f, n, k in p.field_accesses(POS, fld) if f is dfn and k in ('write', 'rmw')]
            via = [n for n, cfid, nm in dfn.calls() if nm == POS + '::set_enpassant_square'] if fld == '_enpassant_square' else []
            if not dws and not via:
                uws = [n for f, n, k in p.field_accesses(POS, fld) if f is ufn and k in ('write', 'rmw')]
                ctx.ob('C03.R1.untouched', '%s:%s' % (tag, fld), not uws,
                       '%s is not written by %s, so %s must not write it either' % (fld, short(dfn.name), short(ufn.name)),
                       site=ufn.loc(uws[0]) if uws else ufn.loc())
                continue
            ok, why = _saved_restored(p, dfn, ufn, cm, fld)
            ctx.ob('C03.R1.saved-restored', '%s:%s' % (tag, fld), ok, '%s: %s' % (fld, why), site=ufn.loc())
        # side flip exactly once on every path of both
        for fn_ in (dfn, ufn):
            fl = [n for n, cfid, nm in fn_.calls() if nm == POS + '::change_current_side']
            ctx.ob('C03.R1.side-flip', short(fn_.name), _once_every_path(fn_, fl),
                   '%s flips the side to move exactly once on every path' % short(fn_.name), site=fn_.loc())
    # history of keys: one push per do_move, one pop per undo_move on every path, none for null moves (C07.R1)
    from rules.common import SubCtx
    import props.C07 as c07
    sub = SubCtx(ctx)
    c07.check_history(sub, p)
    for r in sub.results:
        ctx.ob(r[0].replace('C07.R1', 'C03.R1.history'), r[1], r[2], r[3], site=r[4])
    # the position key: restored by the undo functions through the same incremental updates; C04.R1 decides that at every exit
    # of undo_move/undo_null_move each key component matches the restored field
    import props.C04 as c04
    sub = SubCtx(ctx)
    c04.check(sub)
    # the undo functions set the key from the restored fields, so the key comes back exactly when the *made* move had left it in
    # step with the fields too: the typestate results of all four functions count
    badk = [r for r in sub.results if not r[2] and (r[0] in ('C04.R1.castling-key', 'C04.R1.ep-key') or
                                                     (r[0].startswith('C04.R1') and ('undo' in r[1] or 'null' in r[1])))]
    ctx.ob('C03.R1.key-restored', 'do/undo', not badk,
           'making a (null) move and taking it back leaves every component of the position key in step with the fields at both ends, '
           'so the key of the restored position is the key it had (C04.R1)%s'
           % ('' if not badk else ' — refuted: ' + '; '.join('%s %s at %s' % (r[0], r[1], r[4]) for r in badk[:4])),
           site=badk[0][4] if badk else undo.loc())
    # every Position field written (transitively) by do_* is accounted for
    handled = {'_board', '_by_color_bb', '_by_piece_kind_bb', '_piece_position', '_piece_count', '_zobrist_hash',
               '_current_side', '_ply_counter', '_history_counter', '_half_move_counter', '_castling_rights',
               '_enpassant_square', '_history'}
    reach = p.reachable_from([do, dn])
    written = set()
    for fid in reach:
        f = p.funcs[fid]
        if f.cls != POS:
            continue
        for n in f.all_nodes():
            r = n.get('ref')
            if r and r['k'] == 'Field' and r.get('own') == POS and access_kind(f, n) in ('write', 'rmw', 'addr', 'call'):
                written.add(short(r['n']))
    extra = sorted(written - handled)
    ctx.ob('C03.R1.completeness', 'Position fields', not extra,
           'every Position field that do_move/do_null_move can write (%s) has a restoration rule' % ', '.join(sorted(written)),
           site=do.loc(), detail={'unaccounted': extra})
    # the primitives themselves are mutual inverses on the redundant representations: C02.R1 (SYNC)
    # _history entries above the counter are dead: every read of _history is below _history_counter (C07.R2)

    # ---- R2 PACK(MoveInfo) ---------------------------------------------------------------------------------
    ctx.analysed(cm)
    arms = pack.encoder_arms(cm)
    decs = {n: p.fn('engine::' + n, nparams=1) for n in
            ('captured_piece', 'last_castling', 'last_enpassant_square', 'enpassant', 'half_move_counter')}
    pmap = {'captured': 'captured_piece', 'last_castling': 'last_castling', 'last_enpassant': 'last_enpassant_square',
            'enpassant': 'enpassant', 'half_move_counter': 'half_move_counter'}
    pk, cas, sq = p.enum('engine::PieceKind'), p.enum('engine::Castling'), p.enum('engine::Square')
    need = {'captured': pack.bits_for(pk['KING']), 'last_castling': pack.bits_for(cas['ALL_CASTLING']),
            'last_enpassant': pack.bits_for(sq['SQ_H8']), 'enpassant': 1, 'half_move_counter': 8}
    layout = {}
    for nm, f in decs.items():
        ctx.analysed(f)
        fs = pack.decoder_fields(f)
        layout[nm] = sorted((s, pack.mask_width(m)) for s, m, node in fs)
    ctx.info['moveinfo_layout'] = {k: str(v) for k, v in layout.items()}
    flag = None
    for ri, (ret, fields) in enumerate(arms):
        for nm, (k, x) in fields.items():
            if nm.startswith('const:'):
                flag = k
                continue
            dn_ = pmap.get(nm)
            if dn_ is None:
                ctx.ob('C03.R2.field-agreement', 'arm%d.%s' % (ri, nm), False, 'packed operand %s has no accessor' % nm, site=cm.loc(ret))
                continue
            cands = [(s, w) for s, w in layout[dn_] if s == k]
            ok = bool(cands) and cands[0][1] is not None and cands[0][1] >= need[nm]
            ctx.ob('C03.R2.field-agreement', 'arm%d.%s' % (ri, nm), ok,
                   'create_moveinfo puts `%s` at bit %d; %s() reads %s; the parameter needs %d bits'
                   % (nm, k, dn_, layout[dn_], need[nm]), site=cm.loc(ret))
    # both arms use the same positions
    pos_sets = [{nm: k for nm, (k, x) in fields.items() if not nm.startswith('const:')} for ret, fields in arms]
    same = all(pos_sets[0].get(k) == v for ps in pos_sets[1:] for k, v in ps.items())
    ctx.ob('C03.R2.arms-agree', 'create_moveinfo', same and len(arms) == 2,
           'both arms of create_moveinfo place the shared fields at the same bits', site=cm.loc())
    # the presence flag of the e.p. square: set exactly in the arm that stores the square, tested by the accessor
    le = layout['last_enpassant_square']
    ok = flag is not None and (flag, 1) in le and any('last_enpassant' in f and 'const:1' in f for r, f in arms) \
        and any('last_enpassant' not in f and 'const:1' not in f for r, f in arms)
    # ... and that arm is the one taken when there IS a square to remember
    from rules.norm import Norm as _Nf
    nf = _Nf(cm)
    for arm_ in arms:
        ret_, f_ = arm_
        has_sq = 'last_enpassant' in f_ and 'const:1' in f_
        atoms_ = set()
        for c_, t_ in arm_.conds:
            atoms_ |= set(nf.facts([(c_, t_)]))
        rel = [a for a in atoms_ if a[0] == 'in' and a[1] == 'last_enpassant']
        if len(rel) != 1:
            raise AnalysisBroken('create_moveinfo: the arms are not told apart by a test of last_enpassant against NO_SQUARE (%s)' % sorted(map(str, atoms_)))
        real = 64 not in rel[0][2] and set(range(64)) <= set(rel[0][2])
        none = set(rel[0][2]) == {64}
        ok = ok and ((has_sq and real) or (not has_sq and none))
    ctx.ob('C03.R2.ep-flag', 'last_enpassant_square', ok,
           'the "had an e.p. square" flag (bit %s) is stored exactly when the square is and is what the accessor tests' % flag,
           site=decs['last_enpassant_square'].loc())
    # disjointness using needed widths
    spans = []
    for nm, dn_ in pmap.items():
        k = pos_sets[0].get(nm, pos_sets[-1].get(nm))
        if k is not None:
            spans.append((k, k + need[nm], nm))
    if flag is not None:
        spans.append((flag, flag + 1, 'flag'))
    spans.sort()
    ok = all(spans[i][1] <= spans[i + 1][0] for i in range(len(spans) - 1)) and spans[-1][1] <= 32
    ctx.ob('C03.R2.disjoint', 'MoveInfo', ok, 'MoveInfo fields do not overlap and fit 32 bits: %s' % spans, site=cm.loc())

    # ---- R3 balanced make/unmake ---------------------------------------------------------------------------
    n_pairs = 0
    for f in p.repo_funcs():
        if not (f.rel.startswith('engine/') or f.rel.startswith('tools/')):
            continue
        for n, cfid, nm in f.calls():
            if nm not in (POS + '::do_move', POS + '::do_null_move'):
                continue
            obj = kids(kids(n)[0])[0] if kids(kids(n)[0]) else None
            objk = canon(f, obj, inline=False) if obj else '?'
            ro = strip_casts(obj).get('ref', {}) if obj else {}
            local_copy = ro.get('k') == 'Local' and '&' not in (strip_casts(obj).get('t') or '') and \
                _is_value_local(f, ro.get('id'))
            if local_copy:
                ctx.ob('C03.R3.local-copy', '%s:%s' % (short(f.name), objk), True,
                       'move made on a local copy of the position (does not outlive the function)', site=f.loc(n), sample=False)
                continue
            one_way = f.name in ('engine::Uci::position_command', 'engine::Uci::moves_command') or \
                f.rel.startswith('tools/regression') or _only_called_from_replay(p, f)
            if one_way:
                ctx.ob('C03.R3.one-way-replay', '%s:%s' % (short(f.name), objk), True,
                       'game replay: moves are intentionally not taken back', site=f.loc(n), sample=False)
                continue
            n_pairs += 1
            un_name = POS + ('::undo_move' if nm.endswith('do_move') else '::undo_null_move')
            # the MoveInfo result must be kept in a local
            par = f.parent(n)
            while par is not None and par['k'] in ('ImplicitCastExpr',):
                par = f.parent(par)
            mi = par['id'] if par is not None and par['k'] == 'VarDecl' else None
            marg = canon(f, kids(n)[1], inline=False) if nm.endswith('do_move') else None
            undos = []
            for m, cfid2, nm2 in f.calls():
                if nm2 != un_name:
                    continue
                o2 = kids(kids(m)[0])[0] if kids(kids(m)[0]) else None
                if canon(f, o2, inline=False) != objk:
                    continue
                a = kids(m)[1:]
                if nm.endswith('do_move'):
                    good = canon(f, a[0], inline=False) == marg and strip_casts(a[1]).get('ref', {}).get('id') == mi
                else:
                    good = strip_casts(a[0]).get('ref', {}).get('id') == mi
                if good:
                    undos.append(m)
            c = f.cfg
            path = c.path_avoiding(c.position(n), set(u['i'] for u in undos), 'exit') if mi is not None else [0]
            ctx.ob('C03.R3.balanced', '%s:%s' % (short(f.name), short(nm)), mi is not None and bool(undos) and path is None,
                   'every path from %s on `%s` to the function exit passes %s with the same move and the MoveInfo it returned'
                   % (short(nm), objk, short(un_name)), site=f.loc(n), detail={'escaping_path_blocks': path})
            # no second make on the same object before the unmake (other than via calls that are themselves balanced)
            others = set(m['i'] for m, c2, nm2 in f.calls() if nm2 in (POS + '::do_move', POS + '::do_null_move')
                         and m is not n)
            if others and undos:
                p2 = c.path_avoiding(c.position(n), set(u['i'] for u in undos), others)
                ctx.ob('C03.R3.no-nested-make', '%s:%s' % (short(f.name), short(nm)), p2 is None,
                       'no second make on the same position before the matching unmake', site=f.loc(n))
    ctx.floor('C03.R3.balanced', n_pairs, 5, 'make sites on shared positions')

    # ---- R4 observers do not write ----------------------------------------------------------------------
    rec = p.record(POS)
    roots = [p.funcs[m['fid']] for m in rec['methods'] if m.get('const') and m['fid'] in p.funcs]
    for nm in ('engine::generate_moves', 'engine::PositionScorer::score', 'engine::MoveOrderer::order_moves',
               'engine::perft', 'engine::is_move_legal', 'engine::attacked_squares', 'engine::endgame::score'):
        roots += p.fns(nm)
    ctx.floor('C03.R4.observers', len(roots), 25, 'observer roots')
    n_bad = 0
    mutators = {POS + '::' + m for m in ('do_move', 'undo_move', 'do_null_move', 'undo_null_move', 'add_piece',
                                        'remove_piece', 'move_piece', 'change_current_side', 'set_enpassant_square',
                                        'parse_uci', 'parse_san')}
    for r in roots:
        ctx.analysed(r)
        if r.name == 'engine::perft':
            continue      # perft makes and unmakes (balanced by R3)
        for fid in p.reachable_from([r], stop=set()):
            f = p.funcs[fid]
            if f.cls == POS and not f.d.get('const') and not f.d.get('ctor') and f.name in mutators:
                # a const observer reaching a mutator: only legal on a local copy (san) — check the call site object
                continue
        for n in r.all_nodes():
            if n['k'] == 'CXXConstCastExpr':
                n_bad += 1
                ctx.ob('C03.R4.no-const-cast', short(r.name), False, 'const_cast in an observer', site=r.loc(n))
            rr = n.get('ref')
            if rr and rr['k'] == 'Field' and rr.get('own') == POS and access_kind(r, n) in ('write', 'rmw', 'addr') \
                    and r.cls == POS and r.d.get('const'):
                n_bad += 1
                ctx.ob('C03.R4.no-write', short(r.name), False, 'const method writes %s' % rr['n'], site=r.loc(n))
        # calls to mutators on anything but a local copy
        for n, cfid, nm in r.calls():
            if nm in mutators and not nm.endswith('parse_uci') and not nm.endswith('parse_san'):
                obj = kids(kids(n)[0])[0] if kids(kids(n)[0]) else None
                ro = strip_casts(obj).get('ref', {}) if obj else {}
                if not (ro.get('k') == 'Local' and _is_value_local(r, ro.get('id'))):
                    n_bad += 1
                    ctx.ob('C03.R4.no-mutator-call', '%s:%s' % (short(r.name), short(nm)), False,
                           'observer calls the mutator %s on a position that is not a local copy' % nm, site=r.loc(n))
    mut_fields = [f_['name'] for f_ in rec['fields'] if f_.get('mutable')]
    ctx.ob('C03.R4.observers-pure', 'observers', n_bad == 0 and not mut_fields,
           '%d observer roots (const methods of Position, generator, evaluator, orderer) contain no write to Position '
           'state, no const_cast, no mutable field, and call mutators only on local copies' % len(roots), site='engine/position.h')


def _writes_local(f, vid):
    from rules.common import local_writes
    return bool(local_writes(f, vid))


def _is_value_local(f, vid):
    for n in f.all_nodes():
        if n['k'] == 'VarDecl' and n.get('id') == vid:
            t = n.get('t', '')
            return '&' not in t and '*' not in t
    return False


def _step_kind(f, n):
    par = f.parent(n)
    while par is not None and par['k'] in ('ImplicitCastExpr', 'ArraySubscriptExpr', 'MemberExpr'):
        par = f.parent(par)
    if par is None:
        return 'other'
    if par['k'] == 'UnaryOperator' and par.get('op') == '++':
        return 'inc'
    if par['k'] == 'UnaryOperator' and par.get('op') == '--':
        return 'dec'
    if par['k'] == 'CompoundAssignOperator' and par.get('op') in ('+=', '-=') and const_of(strip_casts(kids(par)[1])) == 1:
        return 'inc' if par['op'] == '+=' else 'dec'
    return 'assign'


def _once_every_path(f, nodes):
    """exactly one of `nodes` executes on every entry->exit path"""
    if not nodes:
        return False
    c = f.cfg
    ids = set(n['i'] for n in nodes)
    if c.path_avoiding((c.entry, -1), ids, 'exit') is not None:
        return False
    for n in nodes:
        if c.path_avoiding(c.position(n), set(), ids) is not None:
            return False
    return True


PIECES = {}


def _inverse(dev, uev, v=None):
    """symbolic execution of do_move's and then undo_move's board primitives on the handful of squares the case touches: every
    square must end up holding what it held before. Squares and pieces are the "white;black" normal forms of the arguments;
    the initial content is what the case says (the mover on from(move), the victim or nothing on to(move), the enemy pawn
    behind the e.p. square, king and rook on their castling squares, nothing elsewhere)."""
    P = PIECES
    pair = lambda w, b: '%d;%d' % (P[w], P[b])
    EMPTY = pair('NO_PIECE', 'NO_PIECE')
    wing, ep, promo, cap = v if v is not None else (None, False, False, False)
    init = {}
    if wing:
        init['4;60'] = pair('W_KING', 'B_KING')
        init['7;63' if wing == 'K' else '0;56'] = pair('W_ROOK', 'B_ROOK')
    else:
        init['from(move);from(move)'] = pair('W_PAWN', 'B_PAWN') if (ep or promo) else pair('W_KNIGHT', 'B_KNIGHT')
        init['to(move);to(move)'] = pair('B_ROOK', 'W_ROOK') if cap else EMPTY
        if ep:
            init['(to(move)-8);(to(move)+8)'] = pair('B_PAWN', 'W_PAWN')
    st = dict(init)

    def apply(e, who):
        if e[0] == 'move_piece':
            a, b_ = e[1], e[2]
            if st.get(a, EMPTY) == EMPTY:
                return '%s moves a piece from %s, which is empty at that point' % (who, a)
            if st.get(b_, EMPTY) != EMPTY:
                return '%s moves a piece onto %s, which is occupied at that point' % (who, b_)
            st[b_] = st[a]
            st[a] = EMPTY
        elif e[0] == 'remove_piece':
            if st.get(e[1], EMPTY) == EMPTY:
                return '%s removes a piece from %s, which is empty at that point' % (who, e[1])
            st[e[1]] = EMPTY
        elif e[0] == 'add_piece':
            if st.get(e[2], EMPTY) != EMPTY:
                return '%s adds a piece on %s, which is occupied at that point' % (who, e[2])
            st[e[2]] = e[1].replace(' ', '')
        else:
            return 'unknown primitive %s' % e[0]
        return None
    for e in dev:
        r = apply(e, 'do_move')
        if r:
            return False, r
    for e in uev:
        r = apply(e, 'undo_move')
        if r:
            return False, r
    for sq_ in sorted(set(st) | set(init)):
        if st.get(sq_, EMPTY) != init.get(sq_, EMPTY):
            return False, 'square %s held %s before the move and holds %s after taking it back' % (sq_, init.get(sq_, EMPTY), st.get(sq_, EMPTY))
    return True, '%d squares' % len(st)


def _only_called_from_replay(p, f):
    """a helper (absent from the reference tree) every caller of which is a replay handler or such a helper itself"""
    if not p.is_new_function(f):
        return False
    seen, todo = set(), [f]
    while todo:
        g = todo.pop()
        if g.id in seen:
            continue
        seen.add(g.id)
        callers = [h for h, call in p.callers_of(g.name)]
        if not callers:
            return False
        for h in callers:
            if h.name in ('engine::Uci::position_command', 'engine::Uci::moves_command'):
                continue
            if p.is_new_function(h):
                todo.append(h)
            else:
                return False
    return True


def _saved_restored(p, dfn, ufn, cm, fld):
    """field overwritten by dfn: old value read into a local before the first write, that local is an
    argument of create_moveinfo, and ufn assigns the field from the accessor of that argument's slot"""
    q = POS + '::' + fld
    writes = [n for f, n, k in p.field_accesses(POS, fld) if f is dfn and k in ('write', 'rmw')]
    setter = POS + '::set_enpassant_square' if fld == '_enpassant_square' else None
    if setter:
        writes += [n for n, cfid, nm in dfn.calls() if nm == setter]
    saves = []
    for n in dfn.all_nodes():
        if n['k'] == 'VarDecl' and kids(n):
            e = strip_casts(kids(n)[0])
            if e.get('ref', {}).get('n') == q:
                saves.append(n)
    if not saves:
        # ... or the record is built first: the field itself is an argument of a create_moveinfo call made before every write
        slot = None
        for n, cfid, nm in dfn.calls():
            if nm == cm.name:
                for i, a in enumerate(kids(n)[1:]):
                    if strip_casts(a).get('ref', {}).get('n') == q and all(dfn.cfg.node_dominates(n, w) for w in writes) and \
                            not any(dfn.cfg.path_avoiding(dfn.cfg.position(w), set(), {n['i']}) is not None for w in writes):
                        slot = cm.params[i]['name']
        if slot is None:
            return False, 'old value is not saved into a local before being overwritten'
        return _restored(p, ufn, fld, setter, slot, 'read into the record before the first write')
    sv = saves[0]
    dstmt = dfn.parent(sv)
    if not all(dfn.cfg.node_dominates(dstmt, w) for w in writes):
        return False, 'the save does not precede every write'
    from rules.common import local_writes
    if local_writes(dfn, sv['id']):
        return False, 'the saved copy is modified'
    # which create_moveinfo parameter receives it
    slot = None
    for n, cfid, nm in dfn.calls():
        if nm == cm.name:
            for i, a in enumerate(kids(n)[1:]):
                if strip_casts(a).get('ref', {}).get('id') == sv['id']:
                    slot = cm.params[i]['name']
    if slot is None:
        return False, 'the saved value is not passed to create_moveinfo'
    return _restored(p, ufn, fld, setter, slot, 'saved in `%s` before the first write' % sv['name'])


def _restored(p, ufn, fld, setter, slot, how):
    from rules.effects import single_def as _sd
    acc = {'last_castling': 'last_castling', 'last_enpassant': 'last_enpassant_square',
           'half_move_counter': 'half_move_counter', 'captured': 'captured_piece', 'enpassant': 'enpassant'}.get(slot)
    # restoration in ufn (directly from the accessor, or through a local that holds its value)
    def through(v):
        r_ = (v.get('ref') or {}) if v is not None else {}
        if r_.get('k') == 'Local':
            d_ = _sd(ufn, r_['id'])
            if d_ is not None:
                return strip_casts(d_)
        return v
    restored = False
    for f, n, k in p.field_accesses(POS, fld):
        if f is ufn and k == 'write':
            v = through(strip_casts(written_value(ufn, n)))
            if v is not None and v.get('callee', {}).get('n') == 'engine::' + acc:
                restored = _once_every_path(ufn, [n])
    if setter:
        for n, cfid, nm in ufn.calls():
            if nm == setter:
                a = through(strip_casts(kids(n)[1]))
                if a.get('callee', {}).get('n') == 'engine::' + acc:
                    restored = _once_every_path(ufn, [n])
    if not restored:
        return False, 'undo does not assign it from %s(moveinfo) on every path' % acc
    return True, '%s, packed as `%s`, restored from %s(moveinfo)' % (how, slot, acc)
