"""C20 — time allocation never exceeds the clock.

Full claim under real arithmetic + monotone rounding: abstract interpretation
of TimeManager::calculateTime (with computeTimeForFixedLength and importance
inlined) over the input box of the property's quantifier, in the product
domain interval x monotonicity-in-own-clock x linear upper bound c*clock.
Obligations: result >= 0; result <= 0.7*clock; non-decreasing in the clock;
no signed overflow in any integer operation; and the consumer side: every
definition of the search-time budget in clock mode is the allotment itself
or something smaller."""
from facts import AnalysisBroken
from prog import walk, kids, short, access_kind
from rules.arith import AV, Interp, INF
from rules.common import strip_casts, strip_conv, const_of, written_value, guard_facts

LEVEL = 'proof'
EXPLANATION = ('Abstract interpretation (interval x monotonicity x linear bound) of the whole allocation function '
               'over timeleft in [0,24h], inc in [0,10min], movestogo in [0,200], ply in [0,1000]; every integer '
               'operation carries an overflow obligation; consumer rule on the budget field.')
TRUSTED = ['clang 14 parser and CFG (tools/cppfacts)', 'IEEE double rounding is monotone; exp/pow/max transfer functions in checks/rules/arith.py',
           'real-number semantics for floating expressions (rounding error far below 1 ms at these magnitudes)']

T_MAX = 86_400_000.0
INC_MAX = 600_000.0
MTG_MAX = 200.0
PLY_MAX = 1000.0
CAP = 0.7


def _is_side_to_move(f, e):
    """e is Position::color() of the searched position, read through locals introduced since the reference"""
    from rules.effects import single_def
    e = strip_casts(e)
    for _ in range(4):
        if e.get('callee', {}).get('n') == 'engine::Position::color':
            return True
        r = e.get('ref', {})
        if e['k'] == 'DeclRefExpr' and r.get('k') == 'Local':
            d = single_def(f, r['id'])
            if d is None:
                return False
            e = strip_casts(d)
            continue
        return False
    return False


def check(ctx):
    p = ctx.prog()
    calc = p.fn('engine::TimeManager::calculateTime')
    ctx.analysed(calc)
    # the clock words of `go` fill the fields the allocation reads: wtime/btime the time left of WHITE/BLACK, winc/binc the
    # increments, movestogo the number of moves (one turn of go_command's token loop per word)
    from rules.ucitab import go_words, fills
    gf_, gw = go_words(p)
    ctx.analysed(gf_)
    for w_, fld, ix in (('wtime', 'timeleft', 0), ('btime', 'timeleft', 1), ('winc', 'timeinc', 0), ('binc', 'timeinc', 1),
                        ('movestogo', 'movestogo', None), ('movetime', 'movetime', None)):
        ctx.ob('C20.R0.go-words', w_, w_ in gw and fills(gw[w_], fld, ix),
               '`go %s N` reads N into limits.%s%s and nothing else (one turn of the token loop does %s)'
               % (w_, fld, '' if ix is None else '[%s]' % ('WHITE', 'BLACK')[ix], gw.get(w_)), site=gf_.loc())
    params = {q['name']: q for q in calc.params}
    if not {'limits', 'side', 'ply'} <= set(params):
        raise AnalysisBroken('calculateTime(limits, side, ply) parameters not found')
    side_id = params['side']['id']
    inputs_seen = set()

    def field_input(fn, e):
        n = strip_casts(e)
        if n is None:
            return None
        if n['k'] == 'ArraySubscriptExpr':
            base = strip_casts(kids(n)[0])
            idx = strip_casts(kids(n)[1])
            fld = base.get('ref', {}).get('n')
            if fld in ('engine::Limits::timeleft', 'engine::Limits::timeinc'):
                own = fn is calc and idx.get('ref', {}).get('id') == side_id and idx['ref']['k'] == 'Parm'
                if fld.endswith('timeleft'):
                    inputs_seen.add('timeleft[side]' if own else 'timeleft[other]')
                    return AV(0.0, T_MAX, 'i', 1.0) if own else AV(0.0, T_MAX, 'c', None)
                inputs_seen.add('timeinc')
                return AV(0.0, INC_MAX, 'c', None)
        if n['k'] == 'MemberExpr':
            fld = n.get('ref', {}).get('n')
            if fld == 'engine::Limits::movestogo':
                inputs_seen.add('movestogo')
                return AV(0.0, MTG_MAX, 'c', None)
            if fld and fld.startswith('engine::Limits::'):
                raise AnalysisBroken('ARITH: unmodelled Limits field %s' % fld)
        return None

    n_over = [0]
    fns_seen = set()

    def on_overflow(fn, node, av, typ, ok, what):
        n_over[0] += 1
        fns_seen.add(fn.id)
        ctx.ob('C20.R1.no-overflow', '%s:%s#%d' % (short(fn.name), typ, n_over[0]), ok,
               '%s in %s stays inside %s for all inputs of the quantifier (interval [%g, %g])'
               % (what, short(fn.name), typ, av.lo, av.hi), site=fn.loc(node), sample=(n_over[0] <= 2 or not ok))

    it = Interp(p, field_input, on_overflow)
    args = []
    for q in calc.params:
        if q['name'] == 'ply':
            args.append(AV(0.0, PLY_MAX, 'c', None))
        else:
            args.append(AV(0.0, 1.0, 'c', None))   # limits (struct, read through field_input) / side
    res = it.call(calc, args)
    for fid in fns_seen:
        ctx.analysed(p.funcs[fid])
    ctx.info['result_abstract_value'] = repr(res)
    ctx.info['inputs_read'] = sorted(inputs_seen)
    if 'timeleft[side]' not in inputs_seen:
        raise AnalysisBroken('calculateTime does not read limits.timeleft[side]')
    ctx.floor('C20.R1.no-overflow', n_over[0], 8, 'integer operations/conversions')
    ctx.ob('C20.R1.nonneg', 'calculateTime', res.lo >= 0,
           'the allotment is non-negative for every clock state (lower bound %g)' % res.lo, site=calc.loc())
    ctx.ob('C20.R1.cap', 'calculateTime', res.coef is not None and res.coef <= CAP + 1e-12,
           'the allotment is at most 0.7 x the side\'s own remaining time (derived linear bound: %s x timeleft[side])'
           % res.coef, site=calc.loc())
    ctx.ob('C20.R1.monotone', 'calculateTime', res.mono in ('i', 'c'),
           'the allotment is non-decreasing in the side\'s remaining time with everything else fixed (derived: %s)'
           % {'i': 'non-decreasing', 'c': 'independent', 'd': 'non-increasing', '?': 'unknown'}[res.mono],
           site=calc.loc())
    ctx.ob('C20.R1.finite', 'calculateTime', res.hi <= T_MAX,
           'the allotment never exceeds the largest clock value (upper bound %g)' % res.hi, site=calc.loc())

    # ---- R2 consumer -------------------------------------------------------------------------
    n_w = 0
    seen_call = False
    for f, n, k in p.field_accesses('engine::Search', '_search_time'):
        if k not in ('write', 'rmw'):
            continue
        n_w += 1
        ctx.analysed(f)
        v = strip_casts(written_value(f, n))
        if v is not None and v.get('callee', {}).get('n') == calc.name:
            seen_call = True
            a = kids(v)[1:]
            side_ok = _is_side_to_move(f, a[1])
            gf = guard_facts(f, n)
            arm_ok = False
            for cond, truth in gf:
                for x in walk(cond):
                    if x.get('ref', {}).get('n') == 'engine::Limits::timeleft':
                        arm_ok = True
            ctx.ob('C20.R2.consumer', '%s:clock-arm' % short(f.name), side_ok and arm_ok,
                   'in clock mode the budget is the allotment computed for the side to move, stored unmodified',
                   site=f.loc(n))
            continue
        # any other definition outside the constructor must not raise the budget:
        # accepted: std::min(<budget>, x)
        if f.d.get('ctor'):
            continue
        ok = False
        if v is not None and v.get('callee', {}).get('n') == 'std::min':
            ok = any(strip_casts(a).get('ref', {}).get('n') == 'engine::Search::_search_time' for a in kids(v)[1:])
        if not ok and v is not None:
            # `if (budget > x) budget = x;` is the same lowering
            from rules.effects import canon as _cn
            vs = _cn(f, v, inline=True)
            for cond, truth in guard_facts(f, n):
                c0 = strip_casts(cond)
                if c0['k'] == 'BinaryOperator' and c0.get('op') in ('>', '>=', '<', '<='):
                    a_, b_ = kids(c0)
                    big, small = (a_, b_) if c0['op'] in ('>', '>=') else (b_, a_)
                    if not truth:
                        big, small = small, big
                    if strip_casts(big).get('ref', {}).get('n') == 'engine::Search::_search_time' and _cn(f, small, inline=True) == vs:
                        ok = True
        ctx.ob('C20.R2.budget-not-raised', '%s:_search_time' % short(f.name), ok,
               'a later definition of the time budget can only lower it (std::min with the current budget); '
               'a plain constant can exceed the clock-derived allotment', site=f.loc(n))
    ctx.floor('C20.R2.consumer', n_w, 5, 'definitions of _search_time')
    if not seen_call:
        raise AnalysisBroken('no definition of _search_time from calculateTime found')
    # comparisons only tighten
    for f, n, k in p.field_accesses('engine::Search', '_search_time'):
        if k != 'read':
            continue
        par = f.parent(n)
        while par is not None and par['k'] in ('ImplicitCastExpr', 'ParenExpr'):
            par = f.parent(par)
        if par is None:
            continue
        if par['k'] == 'BinaryOperator' and par.get('op') in ('>=', '>', '<', '<='):
            continue
        if par['k'] == 'BinaryOperator' and par.get('op') == '/':
            continue
        if par.get('callee', {}).get('n') == 'std::min':
            continue
        ctx.ob('C20.R2.budget-use', '%s:use' % short(f.name), False,
               'the budget is used other than in a comparison/tightening expression', site=f.loc(n))
    ctx.assume('inputs: timeleft in [0, 24h] ms, timeinc in [0, 10min] ms, movestogo in [0,200], ply in [0,1000] (quantifier of C20)')
    ctx.assume('floating-point expressions are evaluated over the reals; double->integer conversion truncates (monotone)')
