"""C07 — check, mate, stalemate and draw predicates agree with the game history.

Partial: structure and tables of the predicates; the counts over concrete
histories are values, not shape. R1 history stack discipline (one push per
do_move after all key updates, one pop per undo_move, none for null moves,
nobody else writes it). R2 both repetition scans compare earlier keys with
the current full key over the same index range, with thresholds 3 and 2.
R3 the insufficient-material whitelist, evaluated by clang, equals
{K-K, KN-K, KB-K, K-KN, K-KB}; the count vector packer agrees with its
readers and with the Piece numbering. R4 rule50 threshold and is_draw's
disjunction. R5 is_checkmate/is_stalemate decision tables. R6 is_in_check
covers all attacker kinds. R7 consumers use these predicates."""
from facts import AnalysisBroken
from prog import walk, kids, short, access_kind
from rules import pack
from rules.common import strip_casts, const_of, guard_facts
from rules.effects import canon

LEVEL = 'other'
EXPLANATION = ('Partial: the predicates\' structure (history push/pop pairing, scan ranges and thresholds, compared key), '
               'their constant tables (material whitelist evaluated by clang, count-vector packing) and decision tables '
               'are decided; agreement with the rules for each concrete game is not.')
POS = 'engine::Position'


def check_history(ctx, p):
    do = p.fn(POS + '::do_move')
    undo = p.fn(POS + '::undo_move')
    dn = p.fn(POS + '::do_null_move')
    un = p.fn(POS + '::undo_null_move')
    from props.C03 import _once_every_path
    # ---- R1 history stack ---------------------------------------------------------------------------------
    def hist_ops(f):
        ops = []
        for n, cfid, nm in f.calls():
            if nm.startswith('std::vector') and short(nm) in ('push_back', 'pop_back', 'emplace_back', 'clear', 'resize', 'erase', 'insert') and \
                    kids(kids(n)[0]) and '_history' in canon(f, kids(kids(n)[0])[0], inline=False):
                ops.append((short(nm), n))
        for g, n, k in p.field_accesses(POS, '_history'):
            if g is f and k in ('write',):
                ops.append(('store', n))
        for g, n, k in p.field_accesses(POS, '_history_counter') if any(fd['name'] == '_history_counter' for fd in p.record(POS)['fields']) else []:
            if g is f and k in ('write', 'rmw'):
                from props.C03 import _step_kind
                ops.append((_step_kind(f, n), n))
        return ops
    d_ops, u_ops = hist_ops(do), hist_ops(undo)
    push = [n for k, n in d_ops if k in ('push_back', 'emplace_back', 'inc')]
    pop = [n for k, n in u_ops if k in ('pop_back', 'dec')]
    ctx.ob('C07.R1.push', 'do_move', len(push) == 1 and _once_every_path(do, push) and
           all(k in ('push_back', 'emplace_back', 'inc', 'store') for k, n in d_ops),
           'do_move appends exactly one key on every path (%s)' % [k for k, n in d_ops], site=do.loc(push[0]) if push else do.loc())
    ctx.ob('C07.R1.pop', 'undo_move', len(pop) == 1 and _once_every_path(undo, pop) and all(k in ('pop_back', 'dec') for k, n in u_ops),
           'undo_move removes exactly one key on every path (%s)' % [k for k, n in u_ops], site=undo.loc(pop[0]) if pop else undo.loc())
    if push:
        arg = canon(do, kids(push[0])[1], inline=False) if push[0].get('callee') else ''
        stored = arg or canon(do, [n for k, n in d_ops if k == 'store'][0], inline=False)
        ctx.ob('C07.R1.pushed-key', 'do_move', '_zobrist_hash.get_key()' in stored or 'get_key' in stored,
               'the appended value is the full position key (%s)' % stored, site=do.loc(push[0]))
    ctx.ob('C07.R1.null-moves', 'do_null_move/undo_null_move', not hist_ops(dn) and not hist_ops(un),
           'null moves neither push nor pop the history', site=dn.loc())
    writers = set()
    for f in p.repo_funcs('engine/'):
        if hist_ops(f):
            writers.add(short(f.name))
    ctx.ob('C07.R1.who', '_history', writers <= {'do_move', 'undo_move', 'Position'},
           'the history is modified only by do_move, undo_move and the constructor (%s)' % sorted(writers), site='engine/position.cpp')
    ctor = [f for f in p.fns(POS + '::Position') if len(f.params) == 1][0]
    c_ops = hist_ops(ctor)
    ctx.ob('C07.R1.ctor', 'Position(fen)', len([1 for k, n in c_ops if k in ('push_back', 'store')]) == 1,
           'a fresh position starts with exactly its own key in the history', site=ctor.loc())



def scan_spec(f):
    """what a repetition scan covers: {'first', 'last', 'step', 'key', 'needed'}; recognised spellings: an index loop from
    size-2 down to 0 with a nested or merged test, std::find over the reverse range that skips the newest entry.
    Anything else is unrecognised (analysis broken), never a guess."""
    from rules.norm import Norm
    nm = Norm(f)
    loops = [n for n in f.all_nodes() if n['k'] == 'ForStmt']
    rets = [n for n in f.all_nodes() if n['k'] == 'ReturnStmt']
    if len(loops) == 1:
        init, _cv, cond, inc, body = loops[0]['ch']
        iv = [x for x in walk(init) if x['k'] == 'VarDecl']
        if len(iv) != 1 or cond is None or inc is None:
            raise AnalysisBroken('C07: scan loop of %s not recognised' % f.name)
        v = iv[0]['name']
        base, off = nm.lin(kids(iv[0])[0])
        first = 'size%+d' % off if base in ('_history.size()', 'int(_history.size())') else '%s%+d' % (base, off)
        ca = Norm(f, inline=False).atom(cond)
        last = {('ge', v, 0): 0, ('ge', v, 1): 1}.get(ca, str(ca))
        i = strip_casts(inc)
        step = None
        if i['k'] == 'UnaryOperator' and i.get('op') == '--':
            step = 1
        elif i['k'] == 'CompoundAssignOperator' and i.get('op') == '-=':
            step = const_of(strip_casts(kids(i)[1]))
        # the `return true` inside the loop and what governs it
        hit = [r for r in rets if f.inside(r, body) and const_of(strip_casts(kids(r)[0])) == 1]
        miss = [r for r in rets if not f.inside(r, loops[0]) and const_of(strip_casts(kids(r)[0])) == 0]
        if len(hit) != 1 or len(miss) != 1 or len(rets) != 2:
            raise AnalysisBroken('C07: returns of %s not recognised' % f.name)
        g = Norm(f).facts([(c, t) for c, t in guard_facts(f, hit[0]) if f.inside(c, body)])
        keys = [a for a in g if a[0] == 'eq' and '_history[%s]' % v in a[1:]]
        if not keys and [a for a in g if a[0] == 'ne' and '_history[%s]' % v in a[1:]]:
            # the entry is compared with the key, but a DIFFERENT entry counts as an occurrence
            return {'first': first, 'last': last, 'step': step, 'key': 'entries that differ from the key', 'needed': None}
        if len(keys) != 1:
            raise AnalysisBroken('C07: key comparison of %s not recognised (%s)' % (f.name, sorted(map(str, g))))
        key = [x for x in keys[0][1:] if x != '_history[%s]' % v][0]
        rest = [a for a in g if a is not keys[0]]
        needed = None
        if not rest:
            needed = 2
        elif len(rest) == 1 and rest[0][0] == 'eq' and isinstance(rest[0][2], int) and rest[0][1].startswith('++('):
            cvn = rest[0][1][3:-1]
            cd = [x for x in f.all_nodes() if x['k'] == 'VarDecl' and x.get('name') == cvn]
            start = const_of(strip_casts(kids(cd[0])[0])) if len(cd) == 1 and kids(cd[0]) else None
            # starts at `start` occurrences (the current position), pre-incremented on every match, reported at == k
            others = [x for x in f.all_nodes() if x['k'] in ('UnaryOperator', 'CompoundAssignOperator', 'BinaryOperator') and
                      x.get('op') in ('++', '--', '+=', '-=', '=') and cn_(f, kids(x)[0]) == cvn]
            if start is not None and len(others) == 1:
                needed = rest[0][2] - start + 1
        elif len(rest) == 1 and rest[0][0] == 'ne' and isinstance(rest[0][2], int) and str(rest[0][1]).startswith('++('):
            needed = 'any count other than %d' % rest[0][2]
        if needed is None:
            raise AnalysisBroken('C07: occurrence counting of %s not recognised (%s)' % (f.name, sorted(map(str, rest))))
        return {'first': first, 'last': last, 'step': step, 'key': key, 'needed': needed}
    if not loops and len(rets) >= 1:
        # return std::find(rbegin()+1, rend(), key) != rend();  optionally behind `if (size < 2) return false;`
        main = [r for r in rets if const_of(strip_casts(kids(r)[0])) is None]
        early = [r for r in rets if r not in main]
        if len(main) == 1 and all(const_of(strip_casts(kids(r)[0])) == 0 for r in early):
            a = nm.atom(kids(main[0])[0])
            import re as _re
            if a[0] == 'ne':
                for x, y in ((a[1], a[2]), (a[2], a[1])):
                    m = _re.fullmatch(r'find\(\(_history\.rbegin\(\)\+1\),_history\.rend\(\),(.*)\)', str(x))
                    if m and y == '_history.rend()':
                        for r in early:
                            g = Norm(f).facts(guard_facts(f, r))
                            if g not in (frozenset({('le', '_history.size()', 1)}), frozenset({('le', '_history.size()', 0)})):
                                raise AnalysisBroken('C07: early exit of %s not recognised (%s)' % (f.name, sorted(map(str, g))))
                        return {'first': 'size-2', 'last': 0, 'step': 1, 'key': m.group(1), 'needed': 2}
    raise AnalysisBroken('C07: repetition scan of %s is written in a form the rule does not know' % f.name)


def cn_(f, n):
    from rules.norm import Norm
    return Norm(f, inline=False).s(n)


def check(ctx):
    p = ctx.prog()
    do = p.fn(POS + '::do_move')
    undo = p.fn(POS + '::undo_move')
    dn = p.fn(POS + '::do_null_move')
    un = p.fn(POS + '::undo_null_move')
    from props.C03 import _once_every_path

    check_history(ctx, p)

    # ---- R2 scan shape -------------------------------------------------------------------------------------
    specs = {}
    for nm, thr in (('threefold_repetition', 3), ('is_repeated', 2)):
        f = p.fn(POS + '::' + nm)
        ctx.analysed(f)
        spec = scan_spec(f)
        specs[nm] = spec
        ok = spec is not None and spec['first'] == 'size-2' and spec['last'] == 0 and spec['key'] == '_zobrist_hash.get_key()' and \
            spec['needed'] == thr and spec['step'] == 1
        ctx.ob('C07.R2.scan', nm, ok,
               '%s compares every earlier key (index size-2 down to 0) with the current full key and needs %d occurrences including the '
               'current one (%s)' % (nm, thr, spec), site=f.loc())
    a, b = specs['threefold_repetition'], specs['is_repeated']
    ctx.ob('C07.R2.sibling', 'threefold~is_repeated', all(a[k] == b[k] for k in ('first', 'last', 'step', 'key')),
           'both scans cover the same entries with the same key', site='engine/position.cpp')

    # the scans compare keys, the rule compares positions (placement, side, rights, e.p. square): the key stored with every
    # position is the key of exactly those four things (C04: kept in step by every move, null move and their undoing)
    from rules.common import SubCtx as _SC4
    import props.C04 as c04
    sub4 = _SC4(ctx)
    c04.check(sub4)
    bad4 = [r for r in sub4.results if not r[2]]
    ctx.ob('C07.R2.keys-stand-for-positions', 'history keys', not bad4,
           'the keys the repetition scans compare are functions of placement, side to move, castling rights and e.p. square (C04)%s'
           % ('' if not bad4 else ' — refuted: ' + '; '.join('%s %s at %s' % (r[0], r[1], r[4]) for r in bad4[:3])),
           site=bad4[0][4] if bad4 else 'engine/position.cpp')

    # ---- R3 material whitelist + PCV packing ---------------------------------------------------------------------
    em = p.fn(POS + '::enough_material')
    ctx.analysed(em)
    piece = p.enum('engine::Piece')

    def pcv(**cnt):
        v = 0
        for nm, c in cnt.items():
            v |= c << (4 * piece[nm])
        return v
    want = sorted([pcv(), pcv(B_KNIGHT=1), pcv(B_BISHOP=1), pcv(W_KNIGHT=1), pcv(W_BISHOP=1)])
    # decided form: the answer per count vector (a switch or an if chain over get_pcv() evaluates to a constant for each value)
    from rules.cases import effects_under as _eu
    answers = {}
    try:
        for v_ in want + [pcv(W_ROOK=1), pcv(W_KNIGHT=2), pcv(W_KNIGHT=1, B_KNIGHT=1), pcv(W_PAWN=1), pcv(B_BISHOP=1, W_BISHOP=1)]:
            answers[v_] = _eu(em, kids(em.body), {'get_pcv()': v_, 'pcv': v_})
    except AnalysisBroken:
        answers = None
    if answers is not None and all(r_ in (['return 0'], ['return 1']) for r_ in answers.values()):
        wrong = [hex(v_) for v_, r_ in answers.items() if (r_ == ['return 0']) != (v_ in want)]
        ctx.ob('C07.R3.whitelist', 'enough_material', not wrong,
               'material is insufficient exactly for K-K, K-KN, K-KB, KN-K, KB-K (count vectors answered wrongly: %s)' % wrong, site=em.loc())
        ctx.ob('C07.R3.membership', 'enough_material', not wrong,
               'enough_material() answers from the position\'s own count vector', site=em.loc())
    else:
        arr = [n for n in em.all_nodes() if n['k'] == 'VarDecl' and 'PieceCountVector' in n.get('t', '') and n.get('ext')]
        got = None
        if arr:
            got = arr[0].get('val')
            if got is None:
                got = [x.get('cv') for x in kids(strip_casts(kids(arr[0])[0]))]
        ctx.ob('C07.R3.whitelist', 'notEnoughMaterialPCV', got is not None and sorted(got) == want,
               'the insufficient-material list evaluates to exactly {K-K, K-KN, K-KB, KN-K, KB-K} in the count-vector encoding (%s)' % got,
               site=em.loc(arr[0]) if arr else em.loc())
        finds = [n for n, cfid, nm in em.calls() if nm == 'std::find']
        rets = [n for n in em.all_nodes() if n['k'] == 'ReturnStmt']
        okf = len(finds) == 1 and len(rets) == 1 and canon(em, kids(finds[0])[3], inline=False) == 'get_pcv()' and \
            strip_casts(kids(rets[0])[0]).get('op') == '=='
        ctx.ob('C07.R3.membership', 'enough_material', okf,
               'enough_material() is "the position\'s count vector is not in the list" (find(...) == end)', site=em.loc())
    cp = p.fn('engine::create_pcv')
    arms = pack.encoder_arms(cp)
    names = {'wp': 'W_PAWN', 'wn': 'W_KNIGHT', 'wb': 'W_BISHOP', 'wr': 'W_ROOK', 'wq': 'W_QUEEN',
             'bp': 'B_PAWN', 'bn': 'B_KNIGHT', 'bb': 'B_BISHOP', 'br': 'B_ROOK', 'bq': 'B_QUEEN'}
    okp = len(arms) == 1 and len(arms[0][1]) == 10
    if okp:
        for nm, (k, x) in arms[0][1].items():
            okp = okp and nm in names and k == 4 * piece[names[nm]]
    order = [q['name'] for q in cp.params]
    ctx.ob('C07.R3.pcv-pack', 'create_pcv', okp and order == list(names),
           'create_pcv puts the count of piece P at bits 4*P..4*P+3 (parameter order = Piece order)', site=cp.loc())
    gp = p.fn(POS + '::get_pcv')
    args = [canon(gp, a, inline=False) for n, cfid, nm in gp.calls() if nm == 'engine::create_pcv' for a in kids(n)[1:]]
    ctx.ob('C07.R3.pcv-source', 'get_pcv', args == ['_piece_count[%s]' % names[q] for q in order],
           'get_pcv passes the piece counts in the order create_pcv expects (%s)' % args[:3], site=gp.loc())
    gc = [f for f in p.fns('engine::get_count_pcv')]
    okg = True
    for f in gc:
        pv = piece.get(short(f.targs))
        shifts = [x for x in f.all_nodes() if x['k'] == 'BinaryOperator' and x.get('op') == '>>']
        masks = [x for x in f.all_nodes() if x['k'] == 'BinaryOperator' and x.get('op') == '&']
        okg = okg and len(shifts) == 1 and const_of(strip_casts(kids(shifts[0])[1])) == 4 * pv and \
            len(masks) == 1 and const_of(strip_casts(kids(masks[0])[1])) == 0xF
    if gc:
        ctx.ob('C07.R3.pcv-unpack', 'get_count_pcv', okg, 'get_count_pcv<P> reads bits 4*P..4*P+3 (%d instantiations)' % len(gc), site=gc[0].loc())

    # ---- R4 constants ---------------------------------------------------------------------------------------------
    r50 = p.fn(POS + '::rule50')
    from rules.norm import Norm as _N0
    rr = [_N0(r50).disj(kids(n)[0]) for n in r50.all_nodes() if n['k'] == 'ReturnStmt']
    ctx.ob('C07.R4.rule50', 'rule50', rr == [frozenset({frozenset({('ge', '_half_move_counter', 100)})})],
           'rule50() is half-move clock >= 100 (%s)' % [sorted(map(sorted, x)) for x in rr], site=r50.loc())
    from rules.norm import Norm as _N
    idr = p.fn(POS + '::is_draw')
    dr = [_N(idr).disj(kids(n)[0]) for n in idr.all_nodes() if n['k'] == 'ReturnStmt']
    want_d = frozenset({frozenset({('truthy', 'rule50()', True)}), frozenset({('truthy', 'threefold_repetition()', True)}),
                        frozenset({('truthy', 'enough_material()', False)})})
    ctx.ob('C07.R4.is-draw', 'is_draw', dr == [want_d],
           'is_draw() = rule50 || threefold_repetition || !enough_material (%s)' % [sorted(map(sorted, x)) for x in dr], site=idr.loc())
    hm = p.field(POS, '_half_move_counter')
    ctx.note('information: _half_move_counter is %s; it is incremented without saturation, so after 255 reversible plies it wraps '
             '(rule50 has been true since ply 100; a GUI normally ends the game there)' % hm['t'])

    # ---- R5 DECISION is_checkmate / is_stalemate -------------------------------------------------------------------
    from rules.norm import Norm
    for nm, want_neg in (('is_checkmate', False), ('is_stalemate', True)):
        f = p.fn(POS + '::' + nm)
        ctx.analysed(f)
        rets = [n for n in f.all_nodes() if n['k'] == 'ReturnStmt']
        ok = len(rets) == 1
        if ok:
            d = Norm(f, accessors=True).disj(kids(rets[0])[0])
            ok = len(d) == 1
            if ok:
                c = next(iter(d))
                eqs = [a for a in c if a[0] == 'eq']
                chk = [a for a in c if a[0] == 'truthy']
                ok = len(c) == 2 and len(eqs) == 1 and len(chk) == 1 and chk[0] == ('truthy', 'is_in_check(_current_side)', not want_neg)
                if ok:
                    x, y = eqs[0][1], eqs[0][2]
                    ok = y == 'generate_moves(*(this),_current_side,%s)' % x or x == 'generate_moves(*(this),_current_side,%s)' % y
        ctx.ob('C07.R5.decision', nm, bool(ok),
               '%s() = (no generated move for the side to move) && %sin check' % (nm, 'not ' if want_neg else ''), site=f.loc())

    # ---- R6 attacker kinds of is_in_check ------------------------------------------------------------------------------
    ic = p.fn(POS + '::is_in_check')
    ctx.analysed(ic)
    # per colour: the maximal intersections "attack set of the king's square  &  enemy pieces of the kinds that attack that way", in
    # normal form with the definitional helpers read through (pawn_attacks, pieces(c,k1,k2)); then the answer per valuation of
    # those four tests, whether they are tested one by one or as one union
    from rules.norm import Norm as _N6, SYNONYMS as _SYN, decision as _dec, cond_value as _cv6, Unknown as _U6
    bad6 = None
    for sd in (0, 1):
        n6 = _N6(ic, env={'side': sd, '__targs__': True})
        n6.synonyms = _SYN
        opp = 1 - sd
        ksq_ = 'piece_position(%d)' % (6 * sd + 6)
        UL, UR = ('NORTHWEST', 'NORTHEAST') if sd == 0 else ('SOUTHEAST', 'SOUTHWEST')

        def band_(*ps):
            return '(' + '&'.join(sorted(ps)) + ')'

        def bor_(*ps):
            return '(' + '|'.join(sorted(ps)) + ')'
        want6 = {band_(bor_('shift<%s>(square_bb(%s))' % (UL, ksq_), 'shift<%s>(square_bb(%s))' % (UR, ksq_)), 'pieces(%d,1)' % opp),
                 band_('KNIGHT_MASK[%s]' % ksq_, 'pieces(%d,2)' % opp),
                 band_(bor_('pieces(%d,3)' % opp, 'pieces(%d,5)' % opp), 'slider_attack<BISHOP>(%s,pieces())' % ksq_),
                 band_(bor_('pieces(%d,4)' % opp, 'pieces(%d,5)' % opp), 'slider_attack<ROOK>(%s,pieces())' % ksq_)}
        got6 = set()
        for n in ic.all_nodes():
            if n['k'] == 'BinaryOperator' and n.get('op') == '&':
                par = ic.parent(n)
                while par is not None and par['k'] in ('ParenExpr', 'ImplicitCastExpr'):
                    par = ic.parent(par)
                if par is not None and par['k'] == 'BinaryOperator' and par.get('op') == '&':
                    continue
                got6.add(n6.s(n).replace('piece_position(%d,0)' % (6 * sd + 6), ksq_))
        shape6 = r'\(.*(KNIGHT_MASK|slider_attack<\w+>|shift<\w+>).*\)'
        if got6 != want6:
            import re as _re6
            if not all(_re6.fullmatch(shape6, t) for t in got6):
                raise AnalysisBroken('C07.R6: is_in_check is built from `%s`, which the rule does not know' % sorted(got6 - want6)[:1])
            if bad6 is None:
                bad6 = 'side %d: tests %s, expected %s' % (sd, sorted(got6 - want6), sorted(want6 - got6))
            continue
        for hit in [None] + sorted(want6):
            val = {}
            for t in want6:
                val[('truthy', t, True)] = (t == hit)
                val[t] = 1 if t == hit else 0
            n6.val = {}
            try:
                r_ = _dec(ic, val, n6)
                ans = _cv6(n6, kids(r_)[0], val) if r_ is not None else None
            except _U6 as u:
                raise AnalysisBroken('C07.R6: is_in_check decides on `%s`' % str(u)[:160])
            if ans != (hit is not None) and bad6 is None:
                bad6 = 'side %d: with %s the answer is %s' % (sd, 'only `%s` non-empty' % hit if hit else 'no attacker', ans)
    ctx.ob('C07.R6.attackers', 'is_in_check', bad6 is None,
           'is_in_check(side) is true exactly when an enemy pawn, knight, bishop/queen on a diagonal or rook/queen on a line attacks '
           'side\'s king (a king never attacks a king in a legal position)%s' % ('' if bad6 is None else ' — ' + bad6), site=ic.loc())

    # ---- R7 consumers -----------------------------------------------------------------------------------------------------
    s = p.fn('engine::Search::search')
    q = p.fn('engine::Search::quiescence_search')
    sc = set(short(nm) for n, cfid, nm in s.calls() if nm.startswith(POS + '::'))
    qc = set(short(nm) for n, cfid, nm in q.calls() if nm.startswith(POS + '::'))
    ctx.ob('C07.R7.search-draw-cut', 'search', {'is_repeated', 'is_draw'} <= sc and 'is_draw' in qc,
           'the search\'s draw cut-offs call Position::is_repeated/is_draw', site=s.loc())
    if ctx.tier == 'thorough':
        pt = ctx.prog(with_tools=True)
        mains = [f for f in pt.repo_funcs('tools/') if any(nm == POS + '::is_draw' or nm == POS + '::is_checkmate' for n, cfid, nm in f.calls())]
        ctx.ob('C07.R7.regression-loop', 'tools/regression', bool(mains),
               'the regression game loop adjudicates with Position::is_checkmate/is_stalemate/is_draw (%s)' % [short(m.name) for m in mains],
               site=mains[0].loc() if mains else 'tools/regression/main.cpp')
    # ---- R8 what the predicates are computed from -----------------------------------------------------------------
    # is_checkmate/is_stalemate answer from the generated move list (R5), rule50/is_draw from the half-move clock: a generator
    # that drops or adds a move, or a clock that is updated wrongly, makes these answers wrong for the positions concerned.
    from rules.common import SubCtx
    import props.C01 as c01
    sub = SubCtx(ctx)
    c01.check(sub)
    bad = [r for r in sub.results if not r[2]]
    ctx.ob('C07.R8.generator', 'is_checkmate/is_stalemate', not bad,
           'the move generator the mate/stalemate predicates count with satisfies every C01 rule%s'
           % ('' if not bad else ' — refuted: ' + '; '.join('%s %s at %s' % (r[0], r[1], r[4]) for r in bad[:4])),
           site=bad[0][4] if bad else 'engine/movegen.cpp')
    import props.C02 as c02
    sub = SubCtx(ctx)
    c02.check(sub)
    bad = [r for r in sub.results if not r[2] and r[0].startswith('C02.R2')]
    ctx.ob('C07.R8.clock', 'rule50', not bad,
           'the half-move clock the fifty-move test reads is reset exactly by pawn moves and captures (C02.R2)%s'
           % ('' if not bad else ' — refuted: ' + '; '.join('%s %s at %s' % (r[0], r[1], r[4]) for r in bad[:4])),
           site=bad[0][4] if bad else 'engine/position.cpp')
    ctx.note('not decided: agreement of the answers with the rules for each concrete game history')


def re_calls(f):
    return [short(nm) for n, cfid, nm in f.calls() if nm.startswith(POS + '::')]
