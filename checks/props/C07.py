"""C07 — check, mate, stalemate and draw predicates agree with the game history.

Partial: structure and tables of the predicates; the counts over concrete
histories are values, not shape. R1 history stack discipline (one push per
do_move after all key updates, one pop per undo_move, none for null moves,
nobody else writes it). R2 both repetition scans compare earlier keys with
the current full key over the same index range, with thresholds 3 and 2.
R3 the insufficient-material whitelist, evaluated by clang, equals
{K-K, KN-K, KB-K, K-KN, K-KB}; the count vector packer agrees with its
readers and with the Piece numbering. R4 rule50 threshold and is_draw's
disjunction. R5 is_checkmate/is_stalemate decision tables. R6 is_in_check
covers all attacker kinds. R7 consumers use these predicates."""
from facts import AnalysisBroken
from prog import walk, kids, short, access_kind
from rules import pack
from rules.common import strip_casts, const_of, guard_facts
from rules.effects import canon

LEVEL = 'other'
EXPLANATION = ('Partial: the predicates\' structure (history push/pop pairing, scan ranges and thresholds, compared key), '
               'their constant tables (material whitelist evaluated by clang, count-vector packing) and decision tables '
               'are decided; agreement with the rules for each concrete game is not.')
POS = 'engine::Position'


def check_history(ctx, p):
    do = p.fn(POS + '::do_move')
    undo = p.fn(POS + '::undo_move')
    dn = p.fn(POS + '::do_null_move')
    un = p.fn(POS + '::undo_null_move')
    from props.C03 import _once_every_path
    # ---- R1 history stack ---------------------------------------------------------------------------------
    def hist_ops(f):
        ops = []
        for n, cfid, nm in f.calls():
            if nm.startswith('std::vector') and short(nm) in ('push_back', 'pop_back', 'emplace_back', 'clear', 'resize', 'erase', 'insert') and \
                    kids(kids(n)[0]) and '_history' in canon(f, kids(kids(n)[0])[0], inline=False):
                ops.append((short(nm), n))
        for g, n, k in p.field_accesses(POS, '_history'):
            if g is f and k in ('write',):
                ops.append(('store', n))
        for g, n, k in p.field_accesses(POS, '_history_counter') if any(fd['name'] == '_history_counter' for fd in p.record(POS)['fields']) else []:
            if g is f and k in ('write', 'rmw'):
                from props.C03 import _step_kind
                ops.append((_step_kind(f, n), n))
        return ops
    d_ops, u_ops = hist_ops(do), hist_ops(undo)
    push = [n for k, n in d_ops if k in ('push_back', 'emplace_back', 'inc')]
    pop = [n for k, n in u_ops if k in ('pop_back', 'dec')]
    ctx.ob('C07.R1.push', 'do_move', len(push) == 1 and _once_every_path(do, push) and
           all(k in ('push_back', 'emplace_back', 'inc', 'store') for k, n in d_ops),
           'do_move appends exactly one key on every path (%s)' % [k for k, n in d_ops], site=do.loc(push[0]) if push else do.loc())
    ctx.ob('C07.R1.pop', 'undo_move', len(pop) == 1 and _once_every_path(undo, pop) and all(k in ('pop_back', 'dec') for k, n in u_ops),
           'undo_move removes exactly one key on every path (%s)' % [k for k, n in u_ops], site=undo.loc(pop[0]) if pop else undo.loc())
    if push:
        arg = canon(do, kids(push[0])[1], inline=False) if push[0].get('callee') else ''
        stored = arg or canon(do, [n for k, n in d_ops if k == 'store'][0], inline=False)
        ctx.ob('C07.R1.pushed-key', 'do_move', '_zobrist_hash.get_key()' in stored or 'get_key' in stored,
               'the appended value is the full position key (%s)' % stored, site=do.loc(push[0]))
    ctx.ob('C07.R1.null-moves', 'do_null_move/undo_null_move', not hist_ops(dn) and not hist_ops(un),
           'null moves neither push nor pop the history', site=dn.loc())
    writers = set()
    for f in p.repo_funcs('engine/'):
        if hist_ops(f):
            writers.add(short(f.name))
    ctx.ob('C07.R1.who', '_history', writers <= {'do_move', 'undo_move', 'Position'},
           'the history is modified only by do_move, undo_move and the constructor (%s)' % sorted(writers), site='engine/position.cpp')
    ctor = [f for f in p.fns(POS + '::Position') if len(f.params) == 1][0]
    c_ops = hist_ops(ctor)
    ctx.ob('C07.R1.ctor', 'Position(fen)', len([1 for k, n in c_ops if k in ('push_back', 'store')]) == 1,
           'a fresh position starts with exactly its own key in the history', site=ctor.loc())



def check(ctx):
    p = ctx.prog()
    do = p.fn(POS + '::do_move')
    undo = p.fn(POS + '::undo_move')
    dn = p.fn(POS + '::do_null_move')
    un = p.fn(POS + '::undo_null_move')
    from props.C03 import _once_every_path

    check_history(ctx, p)

    # ---- R2 scan shape -------------------------------------------------------------------------------------
    shapes = {}
    for nm, thr in (('threefold_repetition', 3), ('is_repeated', 2)):
        f = p.fn(POS + '::' + nm)
        ctx.analysed(f)
        loops = [n for n in f.all_nodes() if n['k'] == 'ForStmt']
        ok = len(loops) == 1
        shape = None
        if ok:
            init, _cv, cond, inc, body = loops[0]['ch']
            iv = [x for x in walk(init) if x['k'] == 'VarDecl'][0]
            start = canon(f, kids(iv)[0], inline=False).replace(' ', '')
            cnd = canon(f, cond, inline=False).replace(' ', '')
            step = canon(f, inc, inline=False).replace(' ', '')
            cmps = [x for x in walk(body) if x['k'] == 'BinaryOperator' and x.get('op') == '==' and '_history' in canon(f, x, inline=False)]
            cmp_s = canon(f, cmps[0], inline=False).replace(' ', '') if cmps else ''
            shape = (start, cnd, step, cmp_s)
            shapes[nm] = shape
            start_ok = start in ('(_history.size()-2)', '(int(_history.size())-2)', '(_history_counter-2)') or \
                start.replace('size()', 'S').replace('int(', '(') in ('((_history.S)-2)',)
            ok = start_ok and cnd == '(i>=0)' and step == '--(i)' and \
                cmp_s in ('(_history[i]==_zobrist_hash.get_key())', '(_zobrist_hash.get_key()==_history[i])')
            # occurrences needed (counting the current position)
            if nm == 'threefold_repetition':
                cnt = [x for x in f.all_nodes() if x['k'] == 'VarDecl' and x.get('name') == 'count']
                tests = [x for x in walk(body) if x['k'] == 'BinaryOperator' and x.get('op') == '==' and
                         canon(f, kids(x)[0], inline=False).replace(' ', '') == '++(count)']
                ok = ok and len(cnt) == 1 and const_of(strip_casts(kids(cnt[0])[0])) == 1 and len(tests) == 1 and \
                    const_of(strip_casts(kids(tests[0])[1])) == thr
            else:
                rets = [x for x in walk(body) if x['k'] == 'ReturnStmt']
                ok = ok and len(rets) == 1 and const_of(strip_casts(kids(rets[0])[0])) == 1
            last = [x for x in kids(f.body) if x['k'] == 'ReturnStmt']
            ok = ok and len(last) == 1 and const_of(strip_casts(kids(last[0])[0])) == 0
        ctx.ob('C07.R2.scan', nm, ok,
               '%s scans earlier keys i = size-2 .. 0 against the current full key and needs %d occurrences including the current one (%s)'
               % (nm, thr, shape), site=f.loc())
    if len(shapes) == 2:
        a, b = shapes['threefold_repetition'], shapes['is_repeated']
        ctx.ob('C07.R2.sibling', 'threefold~is_repeated', a == b, 'both scans use the same start, bound, step and comparison', site='engine/position.cpp')

    # ---- R3 material whitelist + PCV packing ---------------------------------------------------------------------
    em = p.fn(POS + '::enough_material')
    ctx.analysed(em)
    piece = p.enum('engine::Piece')

    def pcv(**cnt):
        v = 0
        for nm, c in cnt.items():
            v |= c << (4 * piece[nm])
        return v
    want = sorted([pcv(), pcv(B_KNIGHT=1), pcv(B_BISHOP=1), pcv(W_KNIGHT=1), pcv(W_BISHOP=1)])
    arr = [n for n in em.all_nodes() if n['k'] == 'VarDecl' and 'PieceCountVector' in n.get('t', '') and n.get('ext')]
    got = None
    if arr:
        got = arr[0].get('val')
        if got is None:
            got = [x.get('cv') for x in kids(strip_casts(kids(arr[0])[0]))]
    ctx.ob('C07.R3.whitelist', 'notEnoughMaterialPCV', got is not None and sorted(got) == want,
           'the insufficient-material list evaluates to exactly {K-K, K-KN, K-KB, KN-K, KB-K} in the count-vector encoding (%s)' % got,
           site=em.loc(arr[0]) if arr else em.loc())
    finds = [n for n, cfid, nm in em.calls() if nm == 'std::find']
    rets = [n for n in em.all_nodes() if n['k'] == 'ReturnStmt']
    okf = len(finds) == 1 and len(rets) == 1 and canon(em, kids(finds[0])[3], inline=False) == 'get_pcv()' and \
        strip_casts(kids(rets[0])[0]).get('op') == '=='
    ctx.ob('C07.R3.membership', 'enough_material', okf,
           'enough_material() is "the position\'s count vector is not in the list" (find(...) == end)', site=em.loc())
    cp = p.fn('engine::create_pcv')
    arms = pack.encoder_arms(cp)
    names = {'wp': 'W_PAWN', 'wn': 'W_KNIGHT', 'wb': 'W_BISHOP', 'wr': 'W_ROOK', 'wq': 'W_QUEEN',
             'bp': 'B_PAWN', 'bn': 'B_KNIGHT', 'bb': 'B_BISHOP', 'br': 'B_ROOK', 'bq': 'B_QUEEN'}
    okp = len(arms) == 1 and len(arms[0][1]) == 10
    if okp:
        for nm, (k, x) in arms[0][1].items():
            okp = okp and nm in names and k == 4 * piece[names[nm]]
    order = [q['name'] for q in cp.params]
    ctx.ob('C07.R3.pcv-pack', 'create_pcv', okp and order == list(names),
           'create_pcv puts the count of piece P at bits 4*P..4*P+3 (parameter order = Piece order)', site=cp.loc())
    gp = p.fn(POS + '::get_pcv')
    args = [canon(gp, a, inline=False) for n, cfid, nm in gp.calls() if nm == 'engine::create_pcv' for a in kids(n)[1:]]
    ctx.ob('C07.R3.pcv-source', 'get_pcv', args == ['_piece_count[%s]' % names[q] for q in order],
           'get_pcv passes the piece counts in the order create_pcv expects (%s)' % args[:3], site=gp.loc())
    gc = [f for f in p.fns('engine::get_count_pcv')]
    okg = True
    for f in gc:
        pv = piece.get(short(f.targs))
        shifts = [x for x in f.all_nodes() if x['k'] == 'BinaryOperator' and x.get('op') == '>>']
        masks = [x for x in f.all_nodes() if x['k'] == 'BinaryOperator' and x.get('op') == '&']
        okg = okg and len(shifts) == 1 and const_of(strip_casts(kids(shifts[0])[1])) == 4 * pv and \
            len(masks) == 1 and const_of(strip_casts(kids(masks[0])[1])) == 0xF
    if gc:
        ctx.ob('C07.R3.pcv-unpack', 'get_count_pcv', okg, 'get_count_pcv<P> reads bits 4*P..4*P+3 (%d instantiations)' % len(gc), site=gc[0].loc())

    # ---- R4 constants ---------------------------------------------------------------------------------------------
    r50 = p.fn(POS + '::rule50')
    rr = [canon(r50, kids(n)[0], inline=False).replace(' ', '') for n in r50.all_nodes() if n['k'] == 'ReturnStmt']
    ctx.ob('C07.R4.rule50', 'rule50', rr in (['(int(_half_move_counter)>=100)'], ['(_half_move_counter>=100)']),
           'rule50() is half-move clock >= 100 (%s)' % rr, site=r50.loc())
    idr = p.fn(POS + '::is_draw')
    dr = [canon(idr, kids(n)[0], inline=False).replace(' ', '') for n in idr.all_nodes() if n['k'] == 'ReturnStmt']
    parts = sorted(dr[0].strip('()').replace('||', '|').split('|')) if dr else []
    ctx.ob('C07.R4.is-draw', 'is_draw', sorted(x.strip('()') for x in parts) == sorted(['rule50', 'threefold_repetition', '!(enough_material']) or
           (dr and set(re_calls(idr)) == {'rule50', 'threefold_repetition', 'enough_material'} and '!(enough_material())' in dr[0] and '&&' not in dr[0]),
           'is_draw() = rule50 || threefold_repetition || !enough_material (%s)' % dr, site=idr.loc())
    hm = p.field(POS, '_half_move_counter')
    ctx.note('information: _half_move_counter is %s; it is incremented without saturation, so after 255 reversible plies it wraps '
             '(rule50 has been true since ply 100; a GUI normally ends the game there)' % hm['t'])

    # ---- R5 DECISION is_checkmate / is_stalemate -------------------------------------------------------------------
    for nm, want_neg in (('is_checkmate', False), ('is_stalemate', True)):
        f = p.fn(POS + '::' + nm)
        ctx.analysed(f)
        gm = [n for n, cfid, c in f.calls() if c == 'engine::generate_moves']
        rets = [n for n in f.all_nodes() if n['k'] == 'ReturnStmt']
        ok = len(gm) == 1 and len(rets) == 1 and canon(f, kids(gm[0])[2], inline=False) == '_current_side'
        if ok:
            e = strip_casts(kids(rets[0])[0])
            ok = e['k'] == 'BinaryOperator' and e.get('op') == '&&'
            if ok:
                a, b = [strip_casts(x) for x in kids(e)]
                a_s = canon(f, a, inline=False).replace(' ', '')
                b_s = canon(f, b, inline=False).replace(' ', '')
                ok = a_s in ('(begin==end)', '(end==begin)') and \
                    b_s == ('!(is_in_check(_current_side))' if want_neg else 'is_in_check(_current_side)')
                # begin/end really are the generated list
                endd = [x for x in f.all_nodes() if x['k'] == 'VarDecl' and x.get('name') == 'end']
                ok = ok and endd and strip_casts(kids(endd[0])[0]) is gm[0] and \
                    canon(f, kids(gm[0])[3], inline=False) == 'begin'
        ctx.ob('C07.R5.decision', nm, bool(ok),
               '%s() = (no generated move for the side to move) && %sin check' % (nm, 'not ' if want_neg else ''), site=f.loc())

    # ---- R6 attacker kinds of is_in_check ------------------------------------------------------------------------------
    ic = p.fn(POS + '::is_in_check')
    ctx.analysed(ic)
    terms = []
    for n in ic.all_nodes():
        if n['k'] == 'IfStmt':
            terms.append(canon(ic, kids(n)[0], inline=False).replace(' ', ''))
    want_terms = {'(pawn_attacks(square_bb(king_sq),side)&pieces(!(side),PAWN))',
                  '(KNIGHT_MASK[king_sq]&pieces(!(side),KNIGHT))',
                  '(slider_attack(king_sq,pieces())&pieces(!(side),BISHOP,QUEEN))',
                  '(slider_attack(king_sq,pieces())&pieces(!(side),ROOK,QUEEN))'}
    sl = sorted(c['targs'] for n in ic.all_nodes() for c in [n.get('callee')] if c and c['n'] == 'engine::slider_attack')
    ksq = [n for n in ic.all_nodes() if n['k'] == 'VarDecl' and n.get('name') == 'king_sq']
    ok = set(terms) == want_terms and sl == ['engine::BISHOP', 'engine::ROOK'] and ksq and \
        canon(ic, kids(ksq[0])[0], inline=False).replace(' ', '') == 'piece_position(make_piece(side,KING),<default>)'.replace('<default>', '0') or \
        (set(terms) == want_terms and sl == ['engine::BISHOP', 'engine::ROOK'] and ksq and
         canon(ic, kids(ksq[0])[0], inline=False).replace(' ', '').startswith('piece_position(make_piece(side,KING)'))
    ctx.ob('C07.R6.attackers', 'is_in_check', bool(ok),
           'is_in_check(side) tests pawn, knight, bishop/queen-diagonal and rook/queen-line attackers of the other colour on side\'s king '
           '(a king never attacks a king in a legal position)', site=ic.loc(), detail={'terms': sorted(terms), 'sliders': sl})
    # bishop test uses the bishop lookup, rook test the rook lookup (pairing inside each term)
    pair_ok = True
    for n in ic.all_nodes():
        if n['k'] == 'IfStmt':
            c = kids(n)[0]
            sl_t = [x['callee']['targs'] for x in walk(c) if x.get('callee', {}).get('n') == 'engine::slider_attack']
            kinds = [short(x['ref']['n']) for x in walk(c) if x.get('ref', {}).get('k') == 'Enum' and short(x['ref']['n']) in ('BISHOP', 'ROOK')]
            if sl_t:
                pair_ok = pair_ok and [short(sl_t[0])] == kinds
    ctx.ob('C07.R6.slider-pairing', 'is_in_check', pair_ok, 'the diagonal lookup is intersected with bishops/queens, the orthogonal one with rooks/queens', site=ic.loc())

    # ---- R7 consumers -----------------------------------------------------------------------------------------------------
    s = p.fn('engine::Search::search')
    q = p.fn('engine::Search::quiescence_search')
    sc = set(short(nm) for n, cfid, nm in s.calls() if nm.startswith(POS + '::'))
    qc = set(short(nm) for n, cfid, nm in q.calls() if nm.startswith(POS + '::'))
    ctx.ob('C07.R7.search-draw-cut', 'search', {'is_repeated', 'is_draw'} <= sc and 'is_draw' in qc,
           'the search\'s draw cut-offs call Position::is_repeated/is_draw', site=s.loc())
    if ctx.tier == 'thorough':
        pt = ctx.prog(with_tools=True)
        mains = [f for f in pt.repo_funcs('tools/') if any(nm == POS + '::is_draw' or nm == POS + '::is_checkmate' for n, cfid, nm in f.calls())]
        ctx.ob('C07.R7.regression-loop', 'tools/regression', bool(mains),
               'the regression game loop adjudicates with Position::is_checkmate/is_stalemate/is_draw (%s)' % [short(m.name) for m in mains],
               site=mains[0].loc() if mains else 'tools/regression/main.cpp')
    ctx.note('not decided: agreement of the answers with the rules for each concrete game history')


def re_calls(f):
    return [short(nm) for n, cfid, nm in f.calls() if nm.startswith(POS + '::')]
