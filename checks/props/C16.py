"""C16 — move text, move encoding and FEN round-trip.

R1 PACK: create_move/create_promotion/create_castling vs from/to/promotion/
castling (+ compiled witness over the constexpr creators). R2 UCI text: the
printer's letter tables are inverted by the parser's arithmetic and switch;
castling spellings agree. R3 FEN: piece letters, castling letters, side
letter, e.p. square inverse maps. R4 full-move <-> ply conversion inverse.
R5 operator==, fen() and the key depend on the same four components."""
import re

from facts import AnalysisBroken
from prog import walk, kids, short, access_kind
from rules import pack
from rules.common import strip_casts, const_of, guard_facts
from rules.witness import compile_witness
from rules.effects import canon

LEVEL = 'proof'
EXPLANATION = ('Encoding: bit-field layouts extracted from both sides and compared (disjoint, equal shifts, masks '
               'as wide as the encoder fields, domains fit) plus a compiled witness over all 64x64x5 creator triples. '
               'Text/FEN: printer tables and parser maps are shown to be mutually inverse as tables; the round trip '
               'for a concrete position follows from these together with C02/C04 and is not enumerated.')


def _switch_map(f, on_name=None):
    """case value -> assigned constant (first assignment in the case group)"""
    out = {}
    for sw in f.all_nodes():
        if sw['k'] != 'SwitchStmt':
            continue
        body = kids(sw)[-1]
        pending = []
        for st in kids(body):
            cur = st
            while cur is not None and cur['k'] in ('CaseStmt', 'DefaultStmt'):
                if cur['k'] == 'CaseStmt':
                    pending.append(cur.get('casev'))
                sub = [c for c in kids(cur) if c['k'] not in ('ConstantExpr',)]
                cur = sub[-1] if sub else None
                if cur is not None and cur['k'] in ('ImplicitCastExpr', 'IntegerLiteral', 'CharacterLiteral', 'DeclRefExpr') and len(sub) == 1:
                    cur = None
            if cur is not None:
                for x in walk(cur):
                    if x['k'] in ('BinaryOperator', 'CompoundAssignOperator', 'CXXOperatorCallExpr') and x.get('op') in ('=', '|='):
                        ops = kids(x)[1:] if x['k'] == 'CXXOperatorCallExpr' else kids(x)
                        v = const_of(strip_casts(ops[1]))
                        tgt = short(strip_casts(ops[0]).get('ref', {}).get('n', ''))
                        if v is not None:
                            for cval in pending:
                                out.setdefault((tgt, cval), v)
                            pending = []
                            break
                if any(x['k'] in ('BreakStmt', 'ReturnStmt') for x in walk(cur)):
                    pending = []
    return out


def _local_string(f, name):
    for n in f.all_nodes():
        if n['k'] == 'VarDecl' and n.get('name') == name:
            for x in walk(n):
                if x['k'] == 'StringLiteral':
                    return x.get('s')
    return None


def check(ctx):
    p = ctx.prog()
    sq = p.enum('engine::Square')
    pk = p.enum('engine::PieceKind')
    pc = p.enum('engine::Piece')
    cas = p.enum('engine::Castling')

    # ---- R1 PACK(Move) ---------------------------------------------------------------------
    enc = {n: p.fn('engine::' + n) for n in ('create_move', 'create_promotion', 'create_castling')}
    dec = {n: p.fn('engine::' + n, nparams=1) for n in ('from', 'to', 'promotion', 'castling')}
    for f in list(enc.values()) + list(dec.values()):
        ctx.analysed(f)
    need = {'from': pack.bits_for(sq['SQ_H8']), 'to': pack.bits_for(sq['SQ_H8']),
            'promotion': pack.bits_for(pk['KING'])}
    layout = {}
    for name, f in dec.items():
        fs = pack.decoder_fields(f)
        if len(fs) != 1:
            raise AnalysisBroken('PACK: decoder %s has %d extractions' % (name, len(fs)))
        s, m, node = fs[0]
        w = pack.mask_width(m)
        layout[name] = (s, w)
        ctx.ob('C16.R1.decoder-mask', name, w is not None,
               '%s() extracts a contiguous field: shift %d mask %s' % (name, s, hex(m) if m is not None else None), site=f.loc())
    # disjointness
    spans = sorted((s, s + (w or 0), n) for n, (s, w) in layout.items())
    ok = all(spans[i][1] <= spans[i + 1][0] for i in range(len(spans) - 1))
    ctx.ob('C16.R1.disjoint', 'Move', ok, 'decoded Move fields do not overlap: %s' % spans, site=dec['from'].loc())
    for ename, f in enc.items():
        for ret, fields in pack.encoder_arms(f):
            for nm, (k, x) in fields.items():
                if ename == 'create_castling':
                    continue
                if nm not in layout:
                    ctx.ob('C16.R1.field-agreement', '%s.%s' % (ename, nm), False,
                           'encoder field %s has no decoder of the same name' % nm, site=f.loc(ret))
                    continue
                s, w = layout[nm]
                ctx.ob('C16.R1.field-agreement', '%s.%s' % (ename, nm), k == s and w is not None and w >= need[nm]
                       and k + need[nm] <= s + (w or 0),
                       '%s puts `%s` at bit %d; %s() reads bit %d width %s; the parameter needs %d bits'
                       % (ename, nm, k, nm, s, w, need[nm]), site=f.loc(ret))
    # a normal move leaves the castling field empty; fields do not reach into it
    cs, cw = layout['castling']
    top = max(s + need[n] for n, (s, w) in layout.items() if n != 'castling')
    ctx.ob('C16.R1.families-separate', 'Move', top <= cs,
           'from/to/promotion occupy bits below %d, so a non-castling move decodes to NO_CASTLING' % cs, site=enc['create_promotion'].loc())
    # castling code round trip
    arms = pack.encoder_arms(enc['create_castling'])
    codes = None
    for ret, fields in arms:
        for nm, (k, x) in fields.items():
            if x['k'] == 'ConditionalOperator' and k == cs:
                c, a, b = kids(x)
                c = strip_casts(c)
                if c['k'] == 'BinaryOperator' and c.get('op') == '==':
                    which = const_of(strip_casts(kids(c)[1]))
                    codes = {which: const_of(strip_casts(a)), 'other': const_of(strip_casts(b))}
    dmap = {}
    cf = dec['castling']
    for n in cf.all_nodes():
        if n['k'] == 'ReturnStmt':
            e = strip_casts(kids(n)[0])
            chain = []
            while e['k'] == 'ConditionalOperator':
                c, a, b = kids(e)
                c = strip_casts(c)
                if c['k'] == 'BinaryOperator' and c.get('op') == '==':
                    chain.append((const_of(strip_casts(kids(c)[1])), const_of(strip_casts(a))))
                e = strip_casts(b)
            dmap = dict(chain)
            dmap['else'] = const_of(e)
    kc, qc, nc = cas['KING_CASTLING'], cas['QUEEN_CASTLING'], cas['NO_CASTLING']
    # by value: castling(create_castling(w)) == w for both wings, castling(<ordinary move>) == NO_CASTLING (all code values 0..3 of the field)
    from rules.norm import eval_function as _ef
    mk, mq = _ef(p, 'engine::create_castling', [kc]), _ef(p, 'engine::create_castling', [qc])
    ordinary = [_ef(p, 'engine::create_promotion', [a_, b_, k_]) for a_, b_, k_ in ((0, 63, 0), (12, 28, 0), (52, 60, 5), (63, 0, 2))]
    if mk is None or mq is None or any(o is None for o in ordinary) or cs is None:
        raise AnalysisBroken('C16: create_castling/create_promotion not evaluable on constants')
    back = {m_: _ef(p, 'engine::castling', [m_]) for m_ in [mk, mq] + ordinary}
    field = {(m_ >> cs) & ((1 << (cw or 2)) - 1) for m_ in (mk, mq)}
    ok = back[mk] == kc and back[mq] == qc and all(back[o] == nc for o in ordinary) and mk != mq and 0 not in field and \
        all(_ef(p, 'engine::castling', [c_ << cs]) in (nc, kc, qc) for c_ in range(1 << (cw or 2))) and \
        _ef(p, 'engine::castling', [0]) == nc
    codes = {kc: (mk >> cs) & 3, 'other': (mq >> cs) & 3}
    dmap = {c_: _ef(p, 'engine::castling', [c_ << cs]) for c_ in range(4)}
    ctx.ob('C16.R1.castling-codes', 'create_castling~castling', ok,
           'castling codes round-trip: encoder %s, decoder %s (0 -> NO_CASTLING)' % (codes, dmap), site=cf.loc())
    n_as, fails = compile_witness('C16.cc')
    for (fn_, line, msg) in fails:
        ctx.ob('C16.R1.witness', 'C16.cc:%d' % line, False, 'static_assert failed: ' + msg, site='%s:%d' % (fn_, line))
    for i in range(n_as - len(fails)):
        ctx.ob('C16.R1.witness', 'C16.cc#%d' % i, True, 'creator relation holds at compile time', site='witness/C16.cc', sample=(i < 1))
    ctx.floor('C16.R1.witness', n_as, 4, 'static_asserts')

    # ---- R2 UCI text ---------------------------------------------------------------------------
    uci = p.fn('engine::Position::uci')
    pu = p.fn('engine::Position::parse_uci')
    ctx.analysed(uci)
    ctx.analysed(pu)
    files, ranks, promos = _local_string(uci, 'files'), _local_string(uci, 'ranks'), _local_string(uci, 'promotions')
    # what uci() prints per kind of move, and in which order: C16.R5.uci-print (props/C16fen.py)
    # parser arithmetic: make_square(Rank(str[1]-'1'), File(str[0]-'a')), (str[3], str[2])
    sqdefs = {}
    for n in pu.all_nodes():
        if n['k'] == 'VarDecl' and n.get('name') in ('from', 'to') and kids(n):
            e = strip_casts(kids(n)[0])
            if e.get('callee', {}).get('n') == 'engine::make_square':
                parts = []
                for a in kids(e)[1:]:
                    sub = None
                    for x in walk(a):
                        if x['k'] == 'BinaryOperator' and x.get('op') == '-':
                            l, r = [strip_casts(y) for y in kids(x)]
                            pos = None
                            for y in walk(l):
                                if y['k'] == 'CXXOperatorCallExpr' and y.get('op') == '[]':
                                    pos = const_of(strip_casts(kids(y)[2]))
                            sub = (pos, const_of(r))
                    parts.append(sub)
                sqdefs[n['name']] = parts
    ok = sqdefs.get('from') == [(1, ord('1')), (0, ord('a'))] and sqdefs.get('to') == [(3, ord('1')), (2, ord('a'))]
    ctx.ob('C16.R2.parse-squares', 'parse_uci', ok,
           'parse_uci reads from = (rank str[1]-\'1\', file str[0]-\'a\') and to = (rank str[3]-\'1\', file str[2]-\'a\')',
           site=pu.loc(), detail={'found': str(sqdefs)})
    sm = _switch_map(pu)
    okp = promos is not None and len(promos) > pk['QUEEN']
    if okp:
        for kind in ('KNIGHT', 'BISHOP', 'ROOK', 'QUEEN'):
            ch = promos[pk[kind]]
            okp = okp and sm.get(('promotion', ord(ch))) == pk[kind] and sm.get(('promotion', ord(ch.upper()))) == pk[kind]
    ctx.ob('C16.R2.promotion-letters', 'uci~parse_uci', okp,
           'the promotion letter printed for N,B,R,Q (table %r indexed by PieceKind) is mapped back to the same kind by '
           'parse_uci, in both cases' % promos, site=pu.loc())
    # the promotion letter is read for every string uci() prints with one: a promotion is made by a pawn of the side to move
    # leaving its seventh rank (rank 7 for White, rank 2 for Black) and is printed with five characters. The conditions that
    # govern the letter switch are evaluated in both models and must let it through.
    from rules.norm import Norm as _Nm, cond_value as _cv, Unknown as _Unk
    from rules.common import all_guards as _ag
    sws = [n for n in pu.all_nodes() if n['k'] == 'SwitchStmt']
    ctx.floor('C16.R2.promotion-guard', len(sws), 1, 'switch statements in parse_uci')
    RKs = p.enum('engine::Rank')
    PCs = p.enum('engine::Piece')
    for sw in sws:
        bad_m = None
        for sd, rk7, pawn in ((0, RKs['RANK_7'], PCs['W_PAWN']), (1, RKs['RANK_2'], PCs['B_PAWN'])):
            nmu = _Nm(pu, keep=('from', 'to'))
            val = {'str.size()': 5, 'str.length()': 5, 'rank(from)': rk7, 'rank(to)': RKs['RANK_8'] if sd == 0 else RKs['RANK_1'],
                   '_board[from]': pawn, 'piece_at(from)': pawn, '_current_side': sd, 'color()': sd,
                   'make_piece_kind(_board[from])': pk['PAWN'], 'get_piece_kind(_board[from])': pk['PAWN'],
                   'make_piece_kind(piece_at(from))': pk['PAWN'], 'get_piece_kind(piece_at(from))': pk['PAWN']}
            nmu.val = val
            try:
                for c, t in _ag(pu, sw):
                    if _cv(nmu, c, val) != t and bad_m is None:
                        bad_m = '%s promotion: `%s` is %s' % ('White' if sd == 0 else 'Black', nmu.show_cond(c), not t)
            except _Unk as u:
                raise AnalysisBroken('C16: the promotion letter of parse_uci is read under a condition on `%s`, which the rule does not model' % u)
        ctx.ob('C16.R2.promotion-guard', 'parse_uci', bad_m is None,
               'the promotion letter is read for every five-character move a promoting pawn of either colour produces%s'
               % ('' if bad_m is None else ' — not for a ' + bad_m), site=pu.loc(sw))
    # castling spellings
    spell = {}
    for n in uci.all_nodes():
        if n['k'] == 'IfStmt':
            c = strip_casts(kids(n)[0])
            wing = None
            for x in walk(c):
                if x.get('ref', {}).get('k') == 'Enum' and short(x['ref']['n']) in ('KING_CASTLING', 'QUEEN_CASTLING'):
                    wing = short(x['ref']['n'])
            if wing:
                for x in walk(kids(n)[1]):
                    if x['k'] == 'ConditionalOperator':
                        cc, a, b = kids(x)
                        cc = strip_casts(cc)
                        is_white_first = cc['k'] == 'BinaryOperator' and cc.get('op') == '==' and \
                            const_of(strip_casts(kids(cc)[1])) == 0
                        sa = [y.get('s') for y in walk(a) if y['k'] == 'StringLiteral']
                        sb = [y.get('s') for y in walk(b) if y['k'] == 'StringLiteral']
                        if is_white_first and sa and sb:
                            spell[(wing, 'W')] = sa[0]
                            spell[(wing, 'B')] = sb[0]
    # parser: which move parse_uci returns, as a decision table over (from, to, piece kind on from); how the tests are nested does not matter
    from rules.norm import Norm, eval_function, Unknown
    sqs = p.enum('engine::Square')
    rets_pu = [x for x in pu.all_nodes() if x['k'] == 'ReturnStmt']
    final = [x for x in rets_pu if x in kids(pu.body)]
    if len(final) != 1:
        raise AnalysisBroken('C16: parse_uci has no single final return')
    codes = {eval_function(p, 'engine::create_castling', [kc]): kc, eval_function(p, 'engine::create_castling', [qc]): qc}
    pmap = {}
    for fr in ('SQ_E1', 'SQ_E8', 'SQ_D1', 'SQ_E2'):
        for to_ in ('SQ_G1', 'SQ_C1', 'SQ_G8', 'SQ_C8', 'SQ_F1', 'SQ_H1', 'SQ_A1', 'SQ_E3'):
            for kind in (pk['KING'], pk['QUEEN']):
                val = {'make_piece_kind(_board[%d])' % sqs[fr]: kind, 'get_piece_kind(_board[%d])' % sqs[fr]: kind,
                       '_board[%d]' % sqs[fr]: 6 if kind == pk['KING'] else 5}
                nm = Norm(pu, env={'from': sqs[fr], 'to': sqs[to_]})
                nm.val = val
                v = nm.cval(kids(final[0])[0])
                if v in codes:
                    if kind != pk['KING']:
                        pmap[(64 + sqs[fr], sqs[to_])] = codes[v]       # castling code for a piece that is not a king: shows up as an extra entry
                    else:
                        pmap[(sqs[fr], sqs[to_])] = codes[v]
                elif v is None:
                    s_ = nm.s(kids(final[0])[0])
                    if not s_.startswith('create_promotion('):
                        raise AnalysisBroken('C16: parse_uci returns `%s` for a move from %s to %s; not understood' % (s_, fr, to_))
    def sqname(s):
        return ('?' if s >= 64 else '') + 'abcdefgh'[s % 8] + '12345678'[(s % 64) // 8]
    pm2 = {sqname(a) + sqname(b): w for (a, b), w in pmap.items()}
    want = {spell.get(('KING_CASTLING', 'W')): kc, spell.get(('KING_CASTLING', 'B')): kc,
            spell.get(('QUEEN_CASTLING', 'W')): qc, spell.get(('QUEEN_CASTLING', 'B')): qc}
    ok = len(spell) == 4 and pm2 == want and want == {'e1g1': kc, 'e8g8': kc, 'e1c1': qc, 'e8c8': qc}
    ctx.info['castling_spelling'] = {'spell': str(spell), 'parser': str(pm2), 'want': str(want)}
    ctx.ob('C16.R2.castling-spelling', 'uci~parse_uci', ok,
           'the four castling spellings printed by uci() are exactly the king moves parse_uci turns into castling codes, same wing',
           site=pu.loc(), detail={'printed': str(spell), 'parsed': str(pm2)})
    # castling early return in uci() precedes from()/to() use  (field-validity, shared with C15)
    ft = [n for n, cfid, nm in uci.calls() if nm in ('engine::from', 'engine::to')]
    okg = bool(ft)
    for n in ft:
        gf = guard_facts(uci, n)
        wings = set()
        for cnd, truth in gf:
            for x in walk(cnd):
                if x.get('ref', {}).get('k') == 'Enum' and short(x['ref']['n']) in ('KING_CASTLING', 'QUEEN_CASTLING') and not truth:
                    wings.add(short(x['ref']['n']))
        okg = okg and wings == {'KING_CASTLING', 'QUEEN_CASTLING'}
    ctx.ob('C16.R2.castling-first', 'uci', okg,
           'uci() returns the castling spelling before it looks at from()/to() (which a castling move does not carry)', site=uci.loc())

    # ---- R3 FEN ------------------------------------------------------------------------------------
    fen = p.fn('engine::Position::fen')
    ctor = [f for f in p.fns('engine::Position::Position') if len(f.params) == 1][0]
    ctx.analysed(fen)
    ctx.analysed(ctor)
    # the twelve piece letters in both directions: C16.R4.letters-read / letters-written (props/C16fen.py)
    # castling letters
    pr = {}
    for n in fen.all_nodes():
        if n['k'] == 'IfStmt':
            c = strip_casts(kids(n)[0])
            bit = None
            if c['k'] in ('CXXOperatorCallExpr', 'BinaryOperator') and c.get('op') == '&':
                bit = const_of(strip_casts(kids(c)[-1]))
            lit = [x.get('s') for x in walk(kids(n)[1]) if x['k'] == 'StringLiteral']
            if bit is not None and lit and len(lit[0]) == 1:
                pr.setdefault(lit[0], bit)
    order = [x.get('s') for x in fen.all_nodes() if x['k'] == 'StringLiteral' and x.get('s') in ('K', 'Q', 'k', 'q')]
    smc = _switch_map(ctor)
    parsed = {chr(cv): v for (tgt, cv), v in smc.items() if tgt == '_castling_rights'}
    want = {'K': cas['W_OO'], 'Q': cas['W_OOO'], 'k': cas['B_OO'], 'q': cas['B_OOO']}
    # (the printing direction is decided per set of rights by C16.R4.writer; the if-chain form is read here only when it is there)
    printed_ok = (pr == want and order == ['K', 'Q', 'k', 'q']) if pr else True
    ctx.ob('C16.R3.castling-letters', 'fen~Position(fen)', printed_ok and parsed == want,
           'castling letters KQkq <-> W_OO,W_OOO,B_OO,B_OOO in both directions, printed in FEN order',
           site=fen.loc(), detail={'printed': str(pr), 'parsed': str(parsed), 'order': str(order)})
    # a printed letter must be honoured when read back: any extra condition on the `|=` has to be the (correct) corner test
    corner = {cas['W_OO']: ('SQ_H1', 'W_ROOK'), cas['W_OOO']: ('SQ_A1', 'W_ROOK'), cas['B_OO']: ('SQ_H8', 'B_ROOK'), cas['B_OOO']: ('SQ_A8', 'B_ROOK')}
    n_or = 0
    for n in ctor.all_nodes():
        if n['k'] == 'CXXOperatorCallExpr' and n.get('op') == '|=' and \
                strip_casts(kids(n)[1]).get('ref', {}).get('n') == 'engine::Position::_castling_rights':
            n_or += 1
            right = const_of(strip_casts(kids(n)[2]))
            conds = []
            for a in ctor.ancestors(n):
                if a['k'] == 'IfStmt':
                    conds.append(canon(ctor, kids(a)[0], inline=False).replace(' ', ''))
                if a['k'] == 'SwitchStmt':
                    break
            ok = True
            why = 'unconditional'
            if conds:
                sqn, pcn = corner.get(right, ('?', '?'))
                allowed = {'(_board[%s]==%s)' % (sqn, pcn), '(piece_at(%s)==%s)' % (sqn, pcn)}
                kingsq = 'SQ_E1' if pcn == 'W_ROOK' else 'SQ_E8'
                kingpc = 'W_KING' if pcn == 'W_ROOK' else 'B_KING'
                allowed |= {'(_board[%s]==%s)' % (kingsq, kingpc), '(piece_at(%s)==%s)' % (kingsq, kingpc)}
                parts = set()
                for c_ in conds:
                    parts |= set(x.strip('()') for x in re.split(r'&&', c_))
                ok = all(('(%s)' % x.strip('()')) in allowed or x in allowed for x in parts)
                why = 'guards %s' % conds
            ctx.ob('C16.R3.castling-honoured', 'right %s' % right, ok,
                   'the right read from a castling letter is set unconditionally, or only subject to king/rook standing on that right\'s own home squares (%s)' % why,
                   site=ctor.loc(n))
    ctx.floor('C16.R3.castling-honoured', n_or, 4, 'castling-right assignments in the FEN constructor')
    # side letter
    side_print = None
    for n in fen.all_nodes():
        if n['k'] == 'ConditionalOperator':
            c, a, b = kids(n)
            c = strip_casts(c)
            sa = [y.get('s') for y in walk(a) if y['k'] == 'StringLiteral']
            sb = [y.get('s') for y in walk(b) if y['k'] == 'StringLiteral']
            if sa in (['w'], ['b']) and c['k'] == 'BinaryOperator' and c.get('op') == '==':
                side_print = (const_of(strip_casts(kids(c)[1])), sa[0], sb[0])
    side_parse = None
    for n in ctor.all_nodes():
        if n['k'] == 'ConditionalOperator':
            c, a, b = kids(n)
            lits = [y.get('s') for y in walk(c) if y['k'] == 'StringLiteral']
            if lits in (['w'], ['b']):
                side_parse = (lits[0], const_of(strip_casts(a)), const_of(strip_casts(b)))
    # (both directions are decided by C16.R4.reader / C16.R4.writer per side; the conditional-expression form is read only when present)
    ctx.ob('C16.R3.side-letter', 'fen~Position(fen)', (side_print in (None, (0, 'w', 'b'))) and (side_parse in (None, ('w', 0, 1))),
           'side to move: WHITE <-> "w", BLACK <-> "b" in both directions', site=fen.loc(),
           detail={'printed': str(side_print), 'parsed': str(side_parse)})
    # e.p. square: printed char('a'+file) char('1'+rank); parsed by notationToSquare(file=s[0]-'a', rank=s[1]-'1')
    eps = []
    for n in fen.all_nodes():
        if n['k'] == 'BinaryOperator' and n.get('op') == '+':
            l, r = [strip_casts(x) for x in kids(n)]
            if l.get('cv') in (ord('a'), ord('1')) and r.get('callee'):
                eps.append((chr(l['cv']), short(r['callee']['n'])))
    n2s = p.fn('engine::notationToSquare')
    ctx.analysed(n2s)
    parts = {}
    for n in n2s.all_nodes():
        if n['k'] == 'VarDecl' and n.get('name') in ('file', 'rank'):
            for x in walk(n):
                if x['k'] == 'BinaryOperator' and x.get('op') == '-':
                    l, r = [strip_casts(y) for y in kids(x)]
                    pos = None
                    for y in walk(l):
                        if y['k'] == 'CXXOperatorCallExpr' and y.get('op') == '[]':
                            pos = const_of(strip_casts(kids(y)[2]))
                    parts[n['name']] = (pos, chr(const_of(r)))
    ctx.ob('C16.R3.ep-square', 'fen~notationToSquare', eps == [('a', 'file'), ('1', 'rank')] and
           parts == {'file': (0, 'a'), 'rank': (1, '1')},
           'the e.p. square is printed as file letter then rank digit and parsed by the inverse affine maps',
           site=n2s.loc(), detail={'printed': str(eps), 'parsed': str(parts)})

    # ---- R4 move-number conversion -----------------------------------------------------------------
    # constructor: ply = 2*n - 1 + [black];  fen(): n = (ply - 1)/2 + 1
    enc_e = None
    for n in ctor.all_nodes():
        if n['k'] == 'BinaryOperator' and n.get('op') == '=' and \
                strip_casts(kids(n)[0]).get('ref', {}).get('n') == 'engine::Position::_ply_counter':
            rhs = strip_casts(kids(n)[1])
            if rhs['k'] == 'BinaryOperator':
                enc_e = rhs
    dec_e = None
    for n in fen.all_nodes():
        if n['k'] == 'BinaryOperator' and n.get('op') == '+':
            l = strip_casts(kids(n)[0])
            if l['k'] == 'BinaryOperator' and l.get('op') == '/' and \
                    any(x.get('ref', {}).get('n') == 'engine::Position::_ply_counter' for x in walk(l)):
                dec_e = n
    ok = False
    if enc_e is not None and dec_e is not None:
        ok = True
        for black in (0, 1):
            for mv in range(1, 10001):
                ply = _eval(enc_e, {'_ply_counter': mv, 'black': black})
                back = _eval(dec_e, {'_ply_counter': ply})
                if ply is None or back != mv or (ply % 2 == 1) != (black == 0):
                    ok = False
                    break
            if not ok:
                break
    ctx.ob('C16.R4.move-number', 'Position(fen)~fen', ok,
           'ply = 2*n-1+[black] (constructor) and n = (ply-1)/2+1 (fen) are mutually inverse for n in 1..10000, both colours '
           '(closed integer identity evaluated on the extracted expression trees)', site=fen.loc())
    # half-move clock goes through the same field
    hm_w = [f for f, n, k in p.field_accesses('engine::Position', '_half_move_counter') if f is ctor and k == 'write']
    hm_r = [f for f, n, k in p.field_accesses('engine::Position', '_half_move_counter') if f is fen and k == 'read']
    ctx.ob('C16.R4.halfmove-field', 'Position(fen)~fen', bool(hm_w) and bool(hm_r),
           'the half-move clock is read into and printed from the same field', site=fen.loc())

    # ---- R5 EFFECT: same components -------------------------------------------------------------------
    comps = {'_board': 'placement', '_current_side': 'side', '_castling_rights': 'rights', '_enpassant_square': 'ep'}
    eq = p.fn('engine::Position::operator==')
    ctx.analysed(eq)

    def reads(f):
        out = set()
        for n in f.all_nodes():
            r = n.get('ref')
            if r and r['k'] == 'Field' and r.get('own') == 'engine::Position' and short(r['n']) in comps:
                out.add(comps[short(r['n'])])
        for n, cfid, nm in f.calls():
            if nm == 'engine::Position::piece_at':
                out.add('placement')
        return out
    ctx.ob('C16.R5.equality-components', 'operator==', reads(eq) == set(comps.values()),
           'Position::operator== compares placement, side, castling rights and e.p. square (%s)' % sorted(reads(eq)), site=eq.loc())
    ctx.ob('C16.R5.fen-components', 'fen', reads(fen) == set(comps.values()),
           'fen() prints placement, side, castling rights and e.p. square (%s)' % sorted(reads(fen)), site=fen.loc())
    import props.C16fen as c16fen
    c16fen.check(ctx, p)
    c16fen.check_uci(ctx, p)
    ctx.note('the key\'s dependence on exactly these four components is C04.R2/R4')


def _eval(e, env):
    e = strip_casts(e)
    if e is None:
        return None
    if e['k'] == 'UnaryOperator' and e.get('op') == '!':
        v = _eval(kids(e)[0], env)
        return None if v is None else int(not v)
    r = e.get('ref')
    if r and r['k'] == 'Field':
        return env.get(short(r['n']))
    if 'cv' in e and not kids(e):
        return e['cv']
    if e['k'] == 'BinaryOperator':
        if e.get('op') == '==':
            # _current_side == BLACK
            l, rr = [strip_casts(x) for x in kids(e)]
            if short(l.get('ref', {}).get('n', '')) == '_current_side':
                return int(env.get('black') == (1 if const_of(rr) == 1 else 0)) if const_of(rr) in (0, 1) else None
            return None
        a, b = _eval(kids(e)[0], env), _eval(kids(e)[1], env)
        if a is None or b is None:
            return None
        op = e['op']
        if op == '+':
            return a + b
        if op == '-':
            return a - b
        if op == '*':
            return a * b
        if op == '/':
            return int(a / b) if b else None
    if 'cv' in e:
        return e['cv']
    return None
