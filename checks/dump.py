#!/usr/bin/env python3
"""debug helper: dump.py <function name substring> [--cfg] [--config release|debug]"""
import sys
import os
sys.path.insert(0, os.path.dirname(os.path.abspath(__file__)))
import prog


def fmt(n):
    s = n['k']
    for k in ('op', 'ck', 'name'):
        if k in n:
            s += ' %s=%s' % (k, n[k])
    if 'ref' in n:
        s += ' ref=%s(%s%s)' % (n['ref']['n'], n['ref']['k'], '#%d' % n['ref']['id'] if 'id' in n['ref'] else '')
    if 'callee' in n:
        s += ' callee=%s' % n['callee']['fid']
    if 'cv' in n:
        s += ' cv=%s' % n['cv']
    if 's' in n:
        s += ' s=%r' % n['s']
    if 'mac' in n:
        s += ' mac=%s' % n['mac']
    if 'lambda' in n:
        s += ' lambda=%s' % n['lambda']
    s += '  :%s' % n.get('t', '')[:60]
    return '#%d L%d %s' % (n['i'], n.get('l', 0), s)


def dump(n, ind=0):
    if not n:
        return
    print('  ' * ind + fmt(n))
    for c in n.get('ch') or []:
        dump(c, ind + 1)


if __name__ == '__main__':
    args = [a for a in sys.argv[1:] if not a.startswith('--')]
    cfgflag = '--cfg' in sys.argv
    config = 'debug' if '--debug' in sys.argv else 'release'
    p = prog.load(config=config, with_tools='--tools' in sys.argv)
    for f in p.funcs.values():
        if args[0] in f.id:
            print('=====', f.id, f.rel, f.line)
            for i in f.d.get('inits', []):
                print(' init', i.get('field'), i.get('written'))
                dump(i.get('init'), 2)
            dump(f.body)
            if cfgflag:
                for b in f.d['cfg']['blocks']:
                    print('B%d el=%s succ=%s term=%s cond=%s label=%s' % (
                        b['id'], b['el'], b['succ'], b.get('termk'), b.get('cond'), b.get('label')))
