"""Fact extraction: runs tools/bin/cppfacts over the compilation set of the
repository's *current working tree* and returns the merged program.

The compilation set is globbed on every call (engine/*.cpp, optionally
tools/regression/*.cpp), mirroring CMakeLists.txt. Results are cached under
/verif/.cache keyed by the content hash of every source/header that can be
included plus the flags and the extractor binary, so a changed tree is always
re-parsed and an unchanged one is parsed once for all 20 checks.
"""
import fcntl
import glob
import hashlib
import json
import os
import pickle
import re
import subprocess
import sys
import time
from concurrent.futures import ThreadPoolExecutor

VERIF = os.path.dirname(os.path.dirname(os.path.abspath(__file__)))
CPPFACTS = os.path.join(VERIF, 'tools', 'bin', 'cppfacts')
CACHE = os.path.join(VERIF, '.cache')


class AnalysisBroken(Exception):
    """The tree could not be analysed (exit 2): never a pass, never a violation."""


def repo_root():
    return os.environ.get('VERIF_REPO', '/repo')


def _resource_dir():
    try:
        return subprocess.check_output(['clang++', '-print-resource-dir'], text=True).strip()
    except Exception:
        return '/usr/lib/llvm-14/lib/clang/14.0.6'


def _gen_config(root, gen):
    os.makedirs(gen, exist_ok=True)
    src = os.path.join(root, 'chessplusplusConfig.h.in')
    out = os.path.join(gen, 'chessplusplusConfig.h')
    if os.path.exists(src):
        txt = open(src).read()
        txt = txt.replace('"@PROJECT_NAME@"', '"chessplusplus"')
        txt = txt.replace('"@chessplusplus_VERSION@"', '"0.0.0"')
        txt = re.sub(r'@[A-Za-z_]+@', '0', txt)
    else:
        txt = '#define ENGINE_NAME "chessplusplus"\n#define CHESSPLUSPLUS_VERSION "0"\n'
    with open(out, 'w') as f:
        f.write(txt)


def units(root, with_tools=False):
    us = sorted(glob.glob(os.path.join(root, 'engine', '*.cpp')))
    if with_tools:
        us += sorted(glob.glob(os.path.join(root, 'tools', 'regression', '*.cpp')))
    return us


def flags(root, gen, config='release', loglevel=0, extra=()):
    fl = ['-std=gnu++20', '-I' + os.path.join(root, 'engine'), '-I' + gen,
          '-I' + os.path.join(root, 'tools', 'regression'),
          '-DLOG_LEVEL=%d' % loglevel, '-DECO_CODES_FILE="scid.eco"',
          '-resource-dir=' + _resource_dir(), '-Wno-everything']
    if config == 'release':
        fl += ['-DNDEBUG']
    elif config == 'debug':
        fl += ['-DDEBUG', '-UNDEBUG']
    else:
        raise ValueError(config)
    fl += list(extra)
    return fl


def _tree_hash(root, fl):
    h = hashlib.sha256()
    files = []
    for pat in ('engine/*.cpp', 'engine/*.h', 'tools/regression/*.cpp',
                'tools/regression/*.h', 'chessplusplusConfig.h.in'):
        files += glob.glob(os.path.join(root, pat))
    for p in sorted(files):
        h.update(os.path.relpath(p, root).encode())
        h.update(b'\0')
        with open(p, 'rb') as f:
            h.update(hashlib.sha256(f.read()).digest())
    h.update(('\0'.join(fl)).replace(root, '<ROOT>').encode())
    with open(CPPFACTS, 'rb') as f:
        h.update(hashlib.sha256(f.read()).digest())
    h.update(b'v3')
    return h.hexdigest()[:24]


def _run_unit(args):
    src, out, root, fl = args
    cmd = [CPPFACTS, '--root=' + root, '--out=' + out, src, '--'] + fl
    p = subprocess.run(cmd, capture_output=True, text=True)
    if p.returncode != 0 or not os.path.exists(out):
        return (src, p.returncode, (p.stderr or '')[-3000:])
    return (src, 0, '')


def extract(root=None, config='release', loglevel=0, with_tools=False, extra=()):
    """Returns (list of per-TU dicts, meta). Raises AnalysisBroken."""
    root = root or repo_root()
    if not os.path.exists(CPPFACTS):
        subprocess.run([os.path.join(VERIF, 'tools', 'build.sh')], check=True,
                       stdout=subprocess.DEVNULL)
    us = units(root, with_tools)
    if len([u for u in us if '/engine/' in u]) < 14:
        raise AnalysisBroken('compilation set: only %d engine units found under %s'
                             % (len(us), root))
    os.makedirs(CACHE, exist_ok=True)
    gen0 = os.path.join(CACHE, 'gen-probe-%d' % os.getpid())
    fl_probe = flags(root, '<GEN>', config, loglevel, extra)
    key = _tree_hash(root, fl_probe + [str(with_tools)])
    d = os.path.join(CACHE, 'facts-' + key)
    pk = os.path.join(d, 'all.pickle')
    lock = open(os.path.join(CACHE, 'lock-' + key), 'w')
    fcntl.flock(lock, fcntl.LOCK_EX)
    try:
        if os.path.exists(pk):
            with open(pk, 'rb') as f:
                return pickle.load(f)
        t0 = time.time()
        os.makedirs(d, exist_ok=True)
        gen = os.path.join(d, 'gen')
        _gen_config(root, gen)
        fl = flags(root, gen, config, loglevel, extra)
        jobs = []
        for u in us:
            out = os.path.join(d, os.path.relpath(u, root).replace('/', '__') + '.json')
            jobs.append((u, out, root, fl))
        with ThreadPoolExecutor(max_workers=min(16, len(jobs))) as ex:
            res = list(ex.map(_run_unit, jobs))
        bad = [r for r in res if r[1] != 0]
        if bad:
            raise AnalysisBroken('cppfacts failed on %s (exit %s): %s'
                                 % (bad[0][0], bad[0][1], bad[0][2]))
        tus = []
        for (u, out, _, _) in jobs:
            with open(out) as f:
                tus.append(json.load(f))
            os.unlink(out)
        meta = {'root': root, 'config': config, 'loglevel': loglevel,
                'units': [os.path.relpath(u, root) for u in us],
                'extract_s': round(time.time() - t0, 2), 'key': key}
        with open(pk + '.tmp', 'wb') as f:
            pickle.dump((tus, meta), f, protocol=pickle.HIGHEST_PROTOCOL)
        os.replace(pk + '.tmp', pk)
        _prune_cache(keep=d)
        return tus, meta
    finally:
        fcntl.flock(lock, fcntl.LOCK_UN)
        lock.close()


def _prune_cache(keep, max_dirs=12):
    try:
        ds = [os.path.join(CACHE, x) for x in os.listdir(CACHE) if x.startswith('facts-')]
        ds.sort(key=lambda p: os.path.getmtime(p))
        import shutil
        for p in ds[:-max_dirs]:
            if p != keep:
                shutil.rmtree(p, ignore_errors=True)
                lk = os.path.join(CACHE, 'lock-' + os.path.basename(p)[6:])
                if os.path.exists(lk):
                    os.unlink(lk)
    except Exception:
        pass


if __name__ == '__main__':
    tus, meta = extract(config=sys.argv[1] if len(sys.argv) > 1 else 'release')
    print(meta, sum(len(t['funcs']) for t in tus))
