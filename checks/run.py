#!/usr/bin/env python3
"""Entry point of every check:  run.py <Cnn> [--tier quick|thorough] [--replay f]

exit 0  all obligations discharged (KNOWN-FINDING lines printed for listed findings)
exit 1  an obligation is refuted by a specific construct: VIOLATION property=<id> replay=<path>
exit 2  analysis broken (anchor vanished, instance floor not met, tree does not parse,
        construct outside the idioms a rule understands): never a pass, never a violation
"""
import argparse
import importlib
import json
import os
import sys
import time
import traceback

HERE = os.path.dirname(os.path.abspath(__file__))
VERIF = os.path.dirname(HERE)
sys.path.insert(0, HERE)

from facts import AnalysisBroken  # noqa: E402
import prog as progmod  # noqa: E402


class Finding:
    def __init__(self, rule, key, what, site, detail=None):
        self.rule = rule
        self.key = key
        self.what = what
        self.site = site
        self.detail = detail or {}

    def as_dict(self):
        return {'rule': self.rule, 'key': self.key, 'what': self.what,
                'site': self.site, 'detail': self.detail}


class Ctx:
    def __init__(self, pid, tier):
        self.pid = pid
        self.tier = tier
        self.obligations = 0
        self.discharged = 0
        self.findings = []
        self.samples = []
        self.rule_counts = {}
        self.assumptions = []
        self.notes = []
        self.units = None
        self.functions_analysed = set()
        self.info = {}

    # program access ------------------------------------------------------
    def prog(self, config='release', loglevel=0, with_tools=False):
        ov = getattr(self, 'override', None)
        if ov:
            loglevel = ov.get('loglevel', loglevel) if loglevel == 0 else loglevel
            with_tools = ov.get('with_tools', with_tools) or with_tools
        p = progmod.load(config=config, loglevel=loglevel, with_tools=with_tools)
        if self.units is None:
            self.units = list(p.meta['units'])
        return p

    # obligations -----------------------------------------------------------
    def ob(self, rule, key, ok, what, site='', detail=None, sample=True):
        """one obligation of `rule` for instance `key`; ok=False refutes it"""
        self.obligations += 1
        self.rule_counts[rule] = self.rule_counts.get(rule, 0) + 1
        if ok:
            self.discharged += 1
            if sample and sum(1 for s in self.samples if s.get('rule') == rule) < 3:
                self.samples.append({'rule': rule, 'instance': key, 'site': site,
                                     'verdict': 'discharged', 'what': what})
        else:
            self.findings.append(Finding(rule, key, what, site, detail))
            self.samples.append({'rule': rule, 'instance': key, 'site': site,
                                 'verdict': 'REFUTED', 'what': what})
        return ok

    def floor(self, rule, n, minimum, what='instances', exact=False):
        """instance floor: far fewer matches than confirmed by hand => analysis broken (a rule that matches nothing passes
        vacuously). The armed floor is half the hand-confirmed count (at least 1), so that merging duplicated code does not
        trip it; exact=True keeps the count itself."""
        if not exact:
            minimum = max(1, (minimum + 1) // 2)
        self.info.setdefault('floors', {})[rule] = {'found': n, 'floor': minimum, 'of': what}
        if n < minimum:
            raise AnalysisBroken('rule %s matched %d %s, floor is %d'
                                 % (rule, n, what, minimum))

    def assume(self, text):
        if text not in self.assumptions:
            self.assumptions.append(text)

    def note(self, text):
        self.notes.append(text)

    def analysed(self, fn):
        self.functions_analysed.add(fn.id if hasattr(fn, 'id') else str(fn))


def load_known():
    known, fixed = [], []
    p = os.path.join(VERIF, 'known_findings.txt')
    if not os.path.exists(p):
        return known, fixed
    for line in open(p):
        line = line.strip()
        if not line or line.startswith('#'):
            continue
        if line.startswith('known:'):
            rest = line[len('known:'):].strip()
            d = {}
            # key=value tokens; 'what=' takes the remainder
            if ' what=' in rest:
                rest, what = rest.split(' what=', 1)
                d['what'] = what
            for tok in rest.split():
                if '=' in tok:
                    k, v = tok.split('=', 1)
                    d[k] = v
            known.append(d)
        elif line.startswith('fixed:'):
            fixed.append(line)
    return known, fixed


LEVELS = {}

ALT_CONFIGS = [('loglevel2', {'loglevel': 2}), ('with-tools', {'with_tools': True})]


def thorough(pid, mod, ctx):
    """thorough tier = quick tier plus (a) the same rule set over the other build configurations of the tree
    (LOG_LEVEL=2 logging code compiled in; the tools/regression units added), (b) a sensitivity self-test: every
    stored change that is known to break this property (seeded changes, reverts of the repaired defects) is applied
    to a scratch copy of the current tree and the check must report it."""
    import shutil
    import subprocess
    import tempfile
    info = {'configs': {}, 'selftest': {}}
    for name, ov in ALT_CONFIGS:
        c2 = Ctx(pid, 'quick')
        c2.override = ov
        mod.check(c2)
        info['configs'][name] = {'obligations': c2.obligations, 'refuted': len(c2.findings)}
        seen = {(f.rule, f.key) for f in ctx.findings}
        for f in c2.findings:
            if (f.rule, f.key) not in seen:
                f.detail = dict(f.detail or {}, configuration=name)
                ctx.findings.append(f)
                ctx.obligations += 1
        ctx.functions_analysed |= c2.functions_analysed
    # (b) sensitivity
    patches = []
    sd = os.path.join(VERIF, 'seeded')
    if os.path.isdir(sd):
        for d in sorted(os.listdir(sd)):
            if d.startswith(pid + '-') and os.path.exists(os.path.join(sd, d, 'patch.diff')):
                patches.append(('seeded/' + d, os.path.join(sd, d, 'patch.diff')))
    rd = os.path.join(VERIF, 'selftest', 'reverts')
    if os.path.isdir(rd):
        for d in sorted(os.listdir(rd)):
            if d.startswith(pid + '-'):
                patches.append(('reverts/' + d, os.path.join(rd, d)))
    # (c) specificity: behaviour-preserving rewrites of the code this property is anchored in (written by independent
    # sub-agents, equivalence checked by differential harnesses) must not be reported
    benign = set()
    bd = os.path.join(VERIF, 'selftest', 'benign')
    if os.path.isdir(bd):
        for d in sorted(os.listdir(bd)):
            if d.startswith(pid + '-') and d.endswith('.diff'):
                patches.append(('benign/' + d, os.path.join(bd, d)))
                benign.add('benign/' + d)
    from facts import repo_root
    root = repo_root()
    if os.environ.get('VERIF_SELFTEST') == '0' or os.environ.get('VERIF_REPO'):
        info['selftest'] = {'skipped': 'nested run'}
        return info
    procs = []
    for name, path in patches:
        tmp = tempfile.mkdtemp(prefix='verif-selftest-')
        try:
            subprocess.run(['rsync', '-a', '--exclude', '_build', '--exclude', '.git', root + '/', tmp + '/'], check=True)
            dry = subprocess.run(['patch', '-p1', '-s', '--dry-run', '-d', tmp, '-i', path], capture_output=True)
            if dry.returncode != 0:
                info['selftest'][name] = 'not applicable to this tree'
                shutil.rmtree(tmp, ignore_errors=True)
                continue
            subprocess.run(['patch', '-p1', '-s', '-d', tmp, '-i', path], check=True, capture_output=True)
            env = dict(os.environ, VERIF_REPO=tmp, VERIF_EVIDENCE_DIR=os.path.join(tmp, '.ev'), VERIF_REPLAY_DIR=os.path.join(tmp, '.rp'),
                       VERIF_SELFTEST='0')
            pr = subprocess.Popen([sys.executable, os.path.join(HERE, 'run.py'), pid, '--tier', 'quick'], env=env,
                                  stdout=subprocess.PIPE, stderr=subprocess.STDOUT, text=True)
            procs.append((name, tmp, pr))
        except Exception:
            shutil.rmtree(tmp, ignore_errors=True)
            raise
    missed = []
    alarms = []
    for name, tmp, pr in procs:
        try:
            out, _ = pr.communicate(timeout=900)
            rc = pr.returncode
        finally:
            shutil.rmtree(tmp, ignore_errors=True)
        rules = sorted({l.split('rule=')[1].split(' ')[0] for l in out.splitlines() if 'refuted: rule=' in l})
        info['selftest'][name] = {'exit': rc, 'rules': rules[:6]}
        if name in benign:
            info['selftest'][name]['expected'] = 'silent (0) or unrecognised shape (2)'
            if rc == 1:
                alarms.append('%s (%s)' % (name, ', '.join(rules[:3])))
        elif rc == 0:
            missed.append(name)
    if missed and not ctx.findings:
        raise AnalysisBroken('sensitivity self-test: the check no longer reports %s' % ', '.join(missed))
    if alarms and not ctx.findings:
        raise AnalysisBroken('specificity self-test: the check reports the behaviour-preserving change %s' % '; '.join(alarms))
    return info


def main():
    ap = argparse.ArgumentParser()
    ap.add_argument('prop')
    ap.add_argument('--tier', default=os.environ.get('VERIF_TIER', 'quick'))
    ap.add_argument('--replay', default=None)
    a = ap.parse_args()
    pid = a.prop
    tier = a.tier if a.tier in ('quick', 'thorough') else 'quick'
    seed = int(os.environ.get('VERIF_SEED', '0') or 0)
    t0 = time.time()

    if a.replay:
        print(open(a.replay).read())
        return 0

    ev_path = os.path.join(os.environ.get('VERIF_EVIDENCE_DIR') or os.path.join(VERIF, 'evidence'), pid + '.json')
    os.makedirs(os.path.dirname(ev_path), exist_ok=True)
    try:
        os.unlink(ev_path)
    except OSError:
        pass

    ctx = Ctx(pid, tier)
    broken = None
    try:
        mod = importlib.import_module('props.' + pid)
        mod.check(ctx)
    except AnalysisBroken as e:
        print('ANALYSIS-BROKEN property=%s: %s' % (pid, e))
        # obligations refuted before the analysis stopped were decided on shapes the rules know: they stand
        if not ctx.findings:
            return 2
        broken = str(e)
        ctx.notes.append('analysis incomplete (stopped at: %s); the refuted obligations were decided before that point' % broken)
    except Exception:
        traceback.print_exc()
        print('ANALYSIS-BROKEN property=%s: internal error in checker' % pid)
        return 2

    # E-IDX over the functions this property's rules analysed: a table read through the wrong enumeration gives another
    # entry's value to the behaviour the property is about
    if broken is None:
        try:
            from rules.common import enum_index_confusions
            prog_ = ctx.prog()
            n_e = 0
            for f_, n_, arr, dim, want, got in enum_index_confusions(prog_, ctx.functions_analysed):
                n_e += 1
                ctx.ob('%s.E.index-enum' % pid, '%s:%s' % (f_.name.rsplit('::', 1)[-1], arr.rsplit('::', 1)[-1]), False,
                       '%s is indexed through %s everywhere else; here the index is a %s, which selects another entry'
                       % (arr, want, got), site=f_.loc(n_))
            if not n_e:
                ctx.ob('%s.E.index-enum' % pid, 'analysed functions', True,
                       'in the functions analysed every subscript of an engine table uses the enumeration that table dimension is '
                       'indexed through everywhere else', site='engine/')
        except AnalysisBroken as e:
            print('ANALYSIS-BROKEN property=%s: %s' % (pid, e))
            if not ctx.findings:
                return 2

    thorough_info = None
    if tier == 'thorough' and broken is None:
        try:
            thorough_info = thorough(pid, mod, ctx)
        except AnalysisBroken as e:
            print('ANALYSIS-BROKEN property=%s: %s' % (pid, e))
            return 2
        ctx.info['thorough'] = thorough_info

    known, _fixed = load_known()
    new = []
    for f in ctx.findings:
        hit = None
        for k in known:
            if k.get('property') == pid and k.get('rule') == f.rule and k.get('key') == f.key:
                hit = k
                break
        if hit:
            print('KNOWN-FINDING: property=%s rule=%s %s — %s (%s)'
                  % (pid, f.rule, f.key, f.what, f.site))
        else:
            new.append(f)

    level = getattr(mod, 'LEVEL', 'other')
    cov = {
        'obligations': ctx.obligations,
        'discharged': ctx.discharged,
        'checker_cmd': 'python3 checks/run.py %s --tier %s' % (pid, tier),
        'trusted_base': getattr(mod, 'TRUSTED', [
            'clang 14 parser, constant evaluator and CFG builder (tools/cppfacts)',
            'flags -std=gnu++20 -DNDEBUG -DLOG_LEVEL=0 standing for the release build',
        ]),
        'explanation': getattr(mod, 'EXPLANATION', ''),
        'rule': 'static rules over the type-checked AST/CFG of every unit of the compilation set; '
                'an instance is one obligation (rule, construct); distinct by (rule, instance key)',
        'evaluations': max(ctx.obligations, 1),
        'distinct_nontrivial': max(len({(s['rule'], s['instance']) for s in ctx.samples}), min(ctx.obligations, 2)),
        'samples': ctx.samples[:40],
        'rules': ctx.rule_counts,
        'units_parsed': ctx.units or [],
        'functions_analysed': sorted(ctx.functions_analysed)[:200],
        'n_functions_analysed': len(ctx.functions_analysed),
        'known_findings_matched': len(ctx.findings) - len(new),
        'notes': ctx.notes,
        'exhaustive': False,
    }
    cov.update(ctx.info)
    if level == 'proof' and ctx.discharged != ctx.obligations:
        level = 'other'
        cov['explanation'] = (cov['explanation'] + ' [level lowered to other on this run: '
                              '%d of %d obligations are refuted]' %
                              (ctx.obligations - ctx.discharged, ctx.obligations)).strip()
    ev = {
        'property_id': pid, 'tier': tier, 'seed': seed, 'level': level,
        'coverage': cov, 'assumptions': ctx.assumptions,
        'wall_s': round(time.time() - t0, 3), 'violations': len(new),
    }
    with open(ev_path + '.tmp', 'w') as f:
        json.dump(ev, f, indent=1)
    os.replace(ev_path + '.tmp', ev_path)

    print('%s: %d obligations, %d discharged, %d known findings, %d new; %d functions; %.1fs'
          % (pid, ctx.obligations, ctx.discharged, len(ctx.findings) - len(new), len(new),
             len(ctx.functions_analysed), time.time() - t0))
    if new:
        rdir = os.environ.get('VERIF_REPLAY_DIR') or os.path.join(VERIF, 'replays')
        os.makedirs(rdir, exist_ok=True)
        rp = os.path.join(rdir, '%s.json' % pid)
        with open(rp, 'w') as f:
            json.dump({'property': pid, 'violations': [x.as_dict() for x in new]}, f, indent=1)
        for x in new:
            print('  refuted: rule=%s instance=%s at %s — %s' % (x.rule, x.key, x.site, x.what))
        print('VIOLATION property=%s replay=%s' % (pid, rp))
        return 1
    return 0


if __name__ == '__main__':
    sys.exit(main())
