// Demo for property C01 ("legal move generation is exact").
//
// Compares the set of moves produced by engine::generate_moves() with the set
// produced by a small, independent mailbox reference generator (pseudo-legal
// moves + make move + "is own king attacked" test) on
//   * a list of FEN positions (targeted ones first, then general ones),
//   * positions reached from the initial position by a fixed line of play,
//   * every position of a shallow tree walk (depth 2) below each of them.
//
// Prints PASS / exit 0 if every compared set is identical, otherwise prints
// FAIL lines (missing / extra / duplicated moves) and exits with 1.

#include "endgame.h"
#include "move_bitboards.h"
#include "movegen.h"
#include "position.h"
#include "zobrist_hash.h"

#include <algorithm>
#include <cctype>
#include <cstdio>
#include <cstdlib>
#include <set>
#include <sstream>
#include <string>
#include <vector>

namespace ref
{
struct Board
{
    char sq[64];  // 0 = a1 ... 63 = h8, '.' = empty, FEN letters otherwise
    bool white;
    bool K, Q, k, q;
    int ep;  // -1 or square index
};

inline int file_of(int s) { return s & 7; }
inline int rank_of(int s) { return s >> 3; }
inline bool on_board(int f, int r) { return f >= 0 && f < 8 && r >= 0 && r < 8; }
inline bool is_white(char c) { return c >= 'A' && c <= 'Z'; }
inline bool is_black(char c) { return c >= 'a' && c <= 'z'; }

Board parse_fen(const std::string& fen)
{
    Board b;
    std::fill(b.sq, b.sq + 64, '.');
    std::istringstream in(fen);
    std::string placement, stm, cr, ep;
    in >> placement >> stm >> cr >> ep;
    int r = 7, f = 0;
    for (char c : placement)
    {
        if (c == '/')
        {
            --r;
            f = 0;
        }
        else if (std::isdigit(static_cast<unsigned char>(c)))
            f += c - '0';
        else
        {
            b.sq[r * 8 + f] = c;
            ++f;
        }
    }
    b.white = stm == "w";
    b.K = cr.find('K') != std::string::npos;
    b.Q = cr.find('Q') != std::string::npos;
    b.k = cr.find('k') != std::string::npos;
    b.q = cr.find('q') != std::string::npos;
    b.ep = ep == "-" ? -1 : (ep[1] - '1') * 8 + (ep[0] - 'a');
    return b;
}

// is square s attacked by the given colour
bool attacked(const Board& b, int s, bool by_white)
{
    const int f = file_of(s), r = rank_of(s);
    // pawns
    {
        int pr = by_white ? r - 1 : r + 1;
        char p = by_white ? 'P' : 'p';
        for (int df = -1; df <= 1; df += 2)
            if (on_board(f + df, pr) && b.sq[pr * 8 + f + df] == p) return true;
    }
    // knights
    {
        static const int d[8][2] = {{1, 2}, {2, 1}, {2, -1}, {1, -2},
                                    {-1, -2}, {-2, -1}, {-2, 1}, {-1, 2}};
        char n = by_white ? 'N' : 'n';
        for (auto& x : d)
            if (on_board(f + x[0], r + x[1]) &&
                b.sq[(r + x[1]) * 8 + f + x[0]] == n)
                return true;
    }
    // king
    {
        char k = by_white ? 'K' : 'k';
        for (int df = -1; df <= 1; ++df)
            for (int dr = -1; dr <= 1; ++dr)
                if ((df || dr) && on_board(f + df, r + dr) &&
                    b.sq[(r + dr) * 8 + f + df] == k)
                    return true;
    }
    // sliders
    {
        static const int d[8][2] = {{1, 0}, {-1, 0}, {0, 1}, {0, -1},
                                    {1, 1}, {1, -1}, {-1, 1}, {-1, -1}};
        for (int i = 0; i < 8; ++i)
        {
            int cf = f + d[i][0], cr = r + d[i][1];
            while (on_board(cf, cr))
            {
                char c = b.sq[cr * 8 + cf];
                if (c != '.')
                {
                    char u = static_cast<char>(
                        std::toupper(static_cast<unsigned char>(c)));
                    if (is_white(c) == by_white &&
                        (u == 'Q' || (i < 4 ? u == 'R' : u == 'B')))
                        return true;
                    break;
                }
                cf += d[i][0];
                cr += d[i][1];
            }
        }
    }
    return false;
}

struct Mv
{
    int from, to;
    char promo;  // 0 or 'q','r','b','n'
};

std::string str(const Mv& m)
{
    std::string s;
    s += static_cast<char>('a' + file_of(m.from));
    s += static_cast<char>('1' + rank_of(m.from));
    s += static_cast<char>('a' + file_of(m.to));
    s += static_cast<char>('1' + rank_of(m.to));
    if (m.promo) s += m.promo;
    return s;
}

// plays the move on a copy (only what is needed to test king safety)
Board after(const Board& b, const Mv& m)
{
    Board n = b;
    char p = n.sq[m.from];
    char u = static_cast<char>(std::toupper(static_cast<unsigned char>(p)));
    n.sq[m.from] = '.';
    if (u == 'P' && m.to == b.ep)
        n.sq[b.white ? m.to - 8 : m.to + 8] = '.';
    if (u == 'K' && std::abs(file_of(m.to) - file_of(m.from)) == 2)
    {
        int rr = rank_of(m.from) * 8;
        if (file_of(m.to) == 6)
        {
            n.sq[rr + 5] = n.sq[rr + 7];
            n.sq[rr + 7] = '.';
        }
        else
        {
            n.sq[rr + 3] = n.sq[rr + 0];
            n.sq[rr + 0] = '.';
        }
    }
    if (m.promo)
        p = b.white ? static_cast<char>(std::toupper(
                          static_cast<unsigned char>(m.promo)))
                    : m.promo;
    n.sq[m.to] = p;
    return n;
}

int king_square(const Board& b, bool white)
{
    for (int s = 0; s < 64; ++s)
        if (b.sq[s] == (white ? 'K' : 'k')) return s;
    return -1;
}

std::vector<std::string> legal_moves(const Board& b)
{
    std::vector<Mv> pseudo;
    const bool w = b.white;
    auto own = [&](char c) { return w ? is_white(c) : is_black(c); };
    auto enemy = [&](char c) { return w ? is_black(c) : is_white(c); };

    for (int s = 0; s < 64; ++s)
    {
        char c = b.sq[s];
        if (!own(c)) continue;
        char u = static_cast<char>(std::toupper(static_cast<unsigned char>(c)));
        int f = file_of(s), r = rank_of(s);

        if (u == 'P')
        {
            int dir = w ? 1 : -1;
            int start = w ? 1 : 6;
            int last = w ? 7 : 0;
            auto add = [&](int to) {
                if (rank_of(to) == last)
                    for (char pr : {'q', 'r', 'b', 'n'})
                        pseudo.push_back({s, to, pr});
                else
                    pseudo.push_back({s, to, 0});
            };
            int r1 = r + dir;
            if (on_board(f, r1) && b.sq[r1 * 8 + f] == '.')
            {
                add(r1 * 8 + f);
                int r2 = r + 2 * dir;
                if (r == start && b.sq[r2 * 8 + f] == '.') add(r2 * 8 + f);
            }
            for (int df = -1; df <= 1; df += 2)
            {
                if (!on_board(f + df, r1)) continue;
                int to = r1 * 8 + f + df;
                if (enemy(b.sq[to]) || to == b.ep) add(to);
            }
        }
        else if (u == 'N' || u == 'K')
        {
            static const int dn[8][2] = {{1, 2}, {2, 1}, {2, -1}, {1, -2},
                                         {-1, -2}, {-2, -1}, {-2, 1}, {-1, 2}};
            static const int dk[8][2] = {{1, 0}, {-1, 0}, {0, 1}, {0, -1},
                                         {1, 1}, {1, -1}, {-1, 1}, {-1, -1}};
            auto& d = u == 'N' ? dn : dk;
            for (auto& x : d)
            {
                if (!on_board(f + x[0], r + x[1])) continue;
                int to = (r + x[1]) * 8 + f + x[0];
                if (!own(b.sq[to])) pseudo.push_back({s, to, 0});
            }
        }
        else
        {
            static const int d[8][2] = {{1, 0}, {-1, 0}, {0, 1}, {0, -1},
                                        {1, 1}, {1, -1}, {-1, 1}, {-1, -1}};
            int lo = u == 'B' ? 4 : 0;
            int hi = u == 'R' ? 4 : 8;
            for (int i = lo; i < hi; ++i)
            {
                int cf = f + d[i][0], cr = r + d[i][1];
                while (on_board(cf, cr))
                {
                    int to = cr * 8 + cf;
                    if (own(b.sq[to])) break;
                    pseudo.push_back({s, to, 0});
                    if (b.sq[to] != '.') break;
                    cf += d[i][0];
                    cr += d[i][1];
                }
            }
        }
    }

    std::vector<std::string> out;
    for (const Mv& m : pseudo)
    {
        Board n = after(b, m);
        if (!attacked(n, king_square(n, w), !w)) out.push_back(str(m));
    }

    // castling
    int ks = w ? 4 : 60;
    if (b.sq[ks] == (w ? 'K' : 'k') && !attacked(b, ks, !w))
    {
        char rook = w ? 'R' : 'r';
        if ((w ? b.K : b.k) && b.sq[ks + 3] == rook && b.sq[ks + 1] == '.' &&
            b.sq[ks + 2] == '.' && !attacked(b, ks + 1, !w) &&
            !attacked(b, ks + 2, !w))
            out.push_back(str({ks, ks + 2, 0}));
        if ((w ? b.Q : b.q) && b.sq[ks - 4] == rook && b.sq[ks - 1] == '.' &&
            b.sq[ks - 2] == '.' && b.sq[ks - 3] == '.' &&
            !attacked(b, ks - 1, !w) && !attacked(b, ks - 2, !w))
            out.push_back(str({ks, ks - 2, 0}));
    }
    return out;
}
}  // namespace ref

using namespace engine;

static int failures = 0;
static long compared = 0;

// compares both generators in the given position; returns true when equal
static bool compare(Position& pos, const std::string& label)
{
    ++compared;
    Move buffer[MAX_MOVES];
    Move* end = generate_moves(pos, pos.color(), buffer);

    std::vector<std::string> eng;
    for (Move* it = buffer; it != end; ++it) eng.push_back(pos.uci(*it));

    std::vector<std::string> exp = ref::legal_moves(ref::parse_fen(pos.fen()));

    std::multiset<std::string> eng_set(eng.begin(), eng.end());
    std::set<std::string> exp_set(exp.begin(), exp.end());

    std::string missing, extra, dup;
    for (const auto& m : exp_set)
        if (!eng_set.count(m)) missing += " " + m;
    for (const auto& m : std::set<std::string>(eng.begin(), eng.end()))
    {
        if (!exp_set.count(m)) extra += " " + m;
        if (eng_set.count(m) > 1) dup += " " + m;
    }

    if (missing.empty() && extra.empty() && dup.empty()) return true;

    if (failures < 20)
    {
        std::printf("FAIL [%s] fen \"%s\": engine generates %zu moves, "
                    "reference %zu;%s%s%s%s%s%s\n",
                    label.c_str(), pos.fen().c_str(), eng.size(), exp.size(),
                    missing.empty() ? "" : " missing legal moves:",
                    missing.c_str(),
                    extra.empty() ? "" : " illegal moves generated:",
                    extra.c_str(), dup.empty() ? "" : " duplicated:",
                    dup.c_str());
    }
    ++failures;
    return false;
}

// compares in every position of the tree of the given depth
static void walk(Position& pos, int depth, const std::string& label)
{
    if (!compare(pos, label)) return;  // do not walk below a wrong node
    if (depth == 0) return;

    Move buffer[MAX_MOVES];
    Move* end = generate_moves(pos, pos.color(), buffer);
    for (Move* it = buffer; it != end; ++it)
    {
        Move move = *it;
        MoveInfo info = pos.do_move(move);
        walk(pos, depth - 1, label);
        pos.undo_move(move, info);
    }
}

int main()
{
    move_bitboards::init();
    zobrist::init();
    bitbase::init();
    endgame::init();

    // 1. targeted positions: a pawn on its initial square is pinned on its
    //    file and both squares in front of it are empty
    const char* targeted[] = {
        // black pawn e7 pinned by the queen on e2 (after 1.e4 d5 2.exd5 a6 3.Qe2)
        "rnbqkbnr/1pp1pppp/p7/3P4/8/8/PPPPQPPP/RNB1KBNR b KQkq - 1 3",
        // black pawn d7 pinned by a rook
        "3k4/3p4/8/8/8/8/8/3RK3 b - - 0 1",
        // black pawn pinned from behind (king in front of the pawn)
        "4R3/4p3/8/8/8/4k3/8/6K1 b - - 0 1",
        // mirrored for white
        "3rk3/8/8/8/8/8/3P4/3K4 w - - 0 1",
        "rnb1kbnr/ppppqppp/8/8/3p4/P7/1PP1PPPP/RNBQKBNR w KQkq - 1 4",
        "6k1/8/4K3/8/8/8/4P3/4r3 w - - 0 1",
    };
    for (const char* fen : targeted)
    {
        Position pos{std::string(fen)};
        walk(pos, 1, "targeted");
    }

    // 2. a line of ordinary play from the initial position
    {
        Position pos;
        const char* line[] = {"e2e4", "d7d5", "e4d5", "g8f6", "d1e2", "e7e5",
                              "d5e6", "f8e7", "e6f7", "e8f7", "g1f3", "h8e8"};
        compare(pos, "line");
        for (const char* m : line)
        {
            Move move = pos.parse_uci(m);
            pos.do_move(move);
            Position copy{pos.fen()};
            walk(copy, 1, std::string("line after ") + m);
        }
    }

    // 3. general positions, shallow tree walk
    const char* general[] = {
        "rnbqkbnr/pppppppp/8/8/8/8/PPPPPPPP/RNBQKBNR w KQkq - 0 1",
        "r3k2r/p1ppqpb1/bn2pnp1/3PN3/1p2P3/2N2Q1p/PPPBBPPP/R3K2R w KQkq - 0 1",
        "8/2p5/3p4/KP5r/1R3p1k/8/4P1P1/8 w - - 0 1",
        "r3k2r/Pppp1ppp/1b3nbN/nP6/BBP1P3/q4N2/Pp1P2PP/R2Q1RK1 w kq - 0 1",
        "rnbq1k1r/pp1Pbppp/2p5/8/2B5/8/PPP1NnPP/RNBQK2R w KQ - 1 8",
        "r4rk1/1pp1qppp/p1np1n2/2b1p1B1/2B1P1b1/P1NP1N2/1PP1QPPP/R4RK1 w - - 0 10",
    };
    for (const char* fen : general)
    {
        Position pos{std::string(fen)};
        walk(pos, 2, "general");
    }

    if (failures)
    {
        std::printf("FAIL: %d of %ld compared positions have a move set that "
                    "differs from the reference legal move generator\n",
                    failures, compared);
        return 1;
    }
    std::printf("PASS: engine and reference legal move sets are identical in "
                "all %ld compared positions\n",
                compared);
    return 0;
}
