#!/usr/bin/env bash
# usage: bash run_demo_1.sh <worktree>
# Builds a small harness (demo_1.cpp) against the engine sources of <worktree>
# and compares engine::generate_moves() with an independent reference legal
# move generator. Prints PASS / exit 0 when the move sets are identical,
# FAIL lines / exit 1 otherwise.
set -u

WT="${1:?usage: run_demo_1.sh <worktree>}"
WT="$(cd "$WT" && pwd)"
HERE="$(cd "$(dirname "${BASH_SOURCE[0]}")" && pwd)"

OUT="$(mktemp -d /tmp/c01_demo1.XXXXXX)"
trap 'rm -rf "$OUT"' EXIT

# uci.cpp wants the cmake-generated config header; provide a stand-in
cat > "$OUT/chessplusplusConfig.h" <<'EOF'
#define ENGINE_NAME "chessplusplus"
#define CHESSPLUSPLUS_VERSION "demo"
#define CHESSPLUSPLUS_MAJOR 0
#define CHESSPLUSPLUS_MINOR 0
#define CHESSPLUSPLUS_PATCH 0
#define CHESSPLUSPLUS_TWEAK 0
EOF

CXXFLAGS="-std=gnu++20 -O1 -DLOG_LEVEL=0 -DNDEBUG -w -I$WT/engine -I$OUT"

SRCS=()
for f in "$WT"/engine/*.cpp; do
    [ "$(basename "$f")" = "main.cpp" ] && continue
    SRCS+=("$f")
done

compile_one() {
    src="$1"
    obj="$OUT/$(basename "$src" .cpp).o"
    g++ $CXXFLAGS -c "$src" -o "$obj" || exit 255
}
export -f compile_one
export CXXFLAGS OUT

printf '%s\n' "${SRCS[@]}" "$HERE/demo_1.cpp" |
    xargs -P 6 -I{} bash -c 'compile_one "$1"' _ {} ||
    { echo "ERROR: compilation failed"; exit 2; }

g++ "$OUT"/*.o -o "$OUT/demo_1" -lpthread ||
    { echo "ERROR: link failed"; exit 2; }

"$OUT/demo_1"
rc=$?
if [ $rc -ne 0 ] && [ $rc -ne 1 ]; then
    echo "FAIL: harness terminated abnormally (exit code $rc)"
    exit 1
fi
exit $rc
