// Harness for property C20: "Time allocation never exceeds the clock".
// For a grid of clock states it checks that TimeManager::calculateTime
//   (1) is non-negative,
//   (2) is at most 70% of the remaining time,
//   (3) does not decrease when the remaining time grows by 1 ms with
//       increment, movestogo, ply and colour fixed.
#include "time_manager.h"

#include <cstdint>
#include <cstdio>
#include <vector>

using namespace engine;

static long long g_checked = 0;
static long long g_violations = 0;
static long long g_worst_drop = 0;
static char g_worst[256] = "";

static Duration allot(int remaining, int inc, int mtg, int ply, Color side)
{
    Limits limits;
    limits.movestogo = mtg;
    limits.timeleft[side] = remaining;
    limits.timeinc[side] = inc;
    // the opponent's clock must not matter: give it something very different
    limits.timeleft[!side] = remaining > 1000 ? 1 : 86400000;
    limits.timeinc[!side] = inc > 0 ? 0 : 600000;
    return TimeManager::calculateTime(limits, side, ply);
}

static void report(const char* what, int remaining, int inc, int mtg, int ply,
                   Color side, long long a, long long b)
{
    ++g_violations;
    if (g_violations <= 12)
        std::printf(
            "  violation [%s]: remaining=%d ms inc=%d ms movestogo=%d ply=%d "
            "colour=%s -> %lld ms (previous/limit %lld ms)\n",
            what, remaining, inc, mtg, ply, side == WHITE ? "white" : "black",
            a, b);
}

static void scan(int from, int to, int inc, int mtg, int ply, Color side)
{
    bool have_prev = false;
    Duration prev = 0;
    for (int t = from; t <= to; ++t)
    {
        if (t < 0) continue;
        Duration cur = allot(t, inc, mtg, ply, side);
        ++g_checked;
        if (cur < 0) report("negative", t, inc, mtg, ply, side, cur, 0);
        if (cur * 10 > static_cast<Duration>(t) * 7)
            report("above 70% of clock", t, inc, mtg, ply, side, cur,
                   static_cast<long long>(t) * 7 / 10);
        if (have_prev && cur < prev && prev - cur >= g_worst_drop &&
            (prev - cur > g_worst_drop || t > 3000))
        {
            g_worst_drop = prev - cur;
            std::snprintf(g_worst, sizeof g_worst,
                          "remaining %d -> %d ms (inc=%d movestogo=%d ply=%d): "
                          "allotment %lld -> %lld ms",
                          t - 1, t, inc, mtg, ply,
                          static_cast<long long>(prev),
                          static_cast<long long>(cur));
        }
        if (have_prev && cur < prev)
            report("decreases when clock grows by 1 ms", t, inc, mtg, ply,
                   side, cur, prev);
        prev = cur;
        have_prev = true;
    }
}

int main()
{
    const std::vector<int> plies = {0, 20, 60, 150, 1000};
    const std::vector<int> incs = {0, 100, 1000, 30000, 600000};
    const std::vector<int> centres = {10000, 60000, 300000, 3600000, 86400000};

    for (int side = 0; side < 2; ++side)
    {
        Color c = side == 0 ? WHITE : BLACK;
        for (int ply : plies)
            for (int inc : incs)
            {
                for (int mtg : {0, 1, 2, 10, 30})
                {
                    scan(0, 3000, inc, mtg, ply, c);
                    for (int centre : centres)
                        scan(centre - 100, centre == 86400000 ? centre : centre + 100,
                             inc, mtg, ply, c);
                }
                for (int mtg : {100, 200})
                {
                    scan(0, 150, inc, mtg, ply, c);
                    for (int centre : centres)
                        scan(centre - 20, centre == 86400000 ? centre : centre + 20,
                             inc, mtg, ply, c);
                }
            }
    }

    std::printf("checked %lld clock states, %lld violations\n", g_checked,
                g_violations);
    if (g_violations != 0)
    {
        if (g_worst_drop > 0)
            std::printf("  largest drop for +1 ms on the clock: %s\n", g_worst);
        std::printf("FAIL: C20 violated - time allotment is negative, above "
                    "70%% of the clock or not monotone in the remaining time "
                    "(%lld cases)\n", g_violations);
        return 1;
    }
    std::printf("PASS: allotment within [0, 70%% of clock] and monotone in "
                "remaining time on all %lld states\n", g_checked);
    return 0;
}
