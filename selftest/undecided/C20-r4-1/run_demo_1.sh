#!/bin/bash
# usage: bash run_demo_1.sh <worktree>
# Builds a small harness against <worktree>/engine/time_manager.cpp and checks
# property C20 (bounds + monotonicity of TimeManager::calculateTime).
set -u
WT="${1:?usage: run_demo_1.sh <worktree>}"
WT="$(cd "$WT" && pwd)"
HERE="$(cd "$(dirname "${BASH_SOURCE[0]}")" && pwd)"
OUT="$(mktemp -d /tmp/c20_demo_1.XXXXXX)"
trap 'rm -rf "$OUT"' EXIT

INC=("-I$WT/engine")
[ -d "$WT/_build" ] && INC+=("-I$WT/_build")

if ! g++ -std=gnu++20 -O2 -DLOG_LEVEL=0 -DNDEBUG "${INC[@]}" \
        "$HERE/demo_1.cpp" "$WT/engine/time_manager.cpp" -o "$OUT/demo_1" 2>"$OUT/err.txt"; then
    # fall back to linking all engine sources except main.cpp
    SRCS=$(ls "$WT"/engine/*.cpp | grep -v '/main.cpp$')
    if ! g++ -std=gnu++20 -O2 -DLOG_LEVEL=0 -DNDEBUG "${INC[@]}" \
            "$HERE/demo_1.cpp" $SRCS -o "$OUT/demo_1" -lpthread 2>>"$OUT/err.txt"; then
        cat "$OUT/err.txt"
        echo "ERROR: could not build harness"
        exit 2
    fi
fi

"$OUT/demo_1"
exit $?
