// Demo for property C18: PolyglotBook::hash(position) must equal the key of
// the published Polyglot book format.
//
// The engine's polyglot.cpp is #included (not linked) so that the harness can
// read the constant tables, which have internal linkage.  The reference key is
// computed here from the FEN text alone, with an own, array based reading of
// the specification; nothing of the engine's Position is used for it.
#include "polyglot.cpp"

#include "endgame.h"
#include "move_bitboards.h"
#include "zobrist_hash.h"

#include <cstdio>
#include <cstring>
#include <sstream>
#include <string>
#include <vector>

using namespace engine;

namespace demo
{

// reference implementation straight from the format description
uint64_t reference_key(const std::string& fen)
{
    std::istringstream in(fen);
    std::string board_s, turn_s, castle_s, ep_s;
    in >> board_s >> turn_s >> castle_s >> ep_s;

    char board[8][8];  // [row][file], row 0 = rank 1
    std::memset(board, 0, sizeof board);
    int row = 7, fl = 0;
    for (char c : board_s)
    {
        if (c == '/') { --row; fl = 0; }
        else if (c >= '1' && c <= '8') fl += c - '0';
        else board[row][fl++] = c;
    }

    // engine piece numbering of the re-ordered table: " PNBRQKpnbrqk"
    const char* order = " PNBRQKpnbrqk";
    uint64_t key = 0;
    for (int r = 0; r < 8; ++r)
        for (int f = 0; f < 8; ++f)
            if (board[r][f])
                key ^= POLYGLOT_PIECE[std::strchr(order, board[r][f]) - order][8 * r + f];

    for (char c : castle_s)
    {
        if (c == 'K') key ^= POLYGLOT_CASTLING_WHITE_SHORT;
        if (c == 'Q') key ^= POLYGLOT_CASTLING_WHITE_LONG;
        if (c == 'k') key ^= POLYGLOT_CASTLING_BLACK_SHORT;
        if (c == 'q') key ^= POLYGLOT_CASTLING_BLACK_LONG;
    }

    const bool white = turn_s == "w";
    if (ep_s != "-")
    {
        const int f = ep_s[0] - 'a';
        // the pawn that just advanced two squares and the pawn that may take it
        const int r = white ? 4 : 3;
        const char mine = white ? 'P' : 'p';
        const bool left = f > 0 && board[r][f - 1] == mine;
        const bool right = f < 7 && board[r][f + 1] == mine;
        if (left || right) key ^= POLYGLOT_ENPASSANT[f];
    }

    if (white) key ^= POLYGLOT_TURN;
    return key;
}

struct Sample { const char* fen; uint64_t key; };

// the examples published with the format description
const Sample PUBLISHED[] = {
    {"rnbqkbnr/pppppppp/8/8/8/8/PPPPPPPP/RNBQKBNR w KQkq - 0 1", 0x463b96181691fc9cULL},
    {"rnbqkbnr/pppppppp/8/8/4P3/8/PPPP1PPP/RNBQKBNR b KQkq e3 0 1", 0x823c9b50fd114196ULL},
    {"rnbqkbnr/ppp1pppp/8/3p4/4P3/8/PPPP1PPP/RNBQKBNR w KQkq d6 0 2", 0x0756b94461c50fb0ULL},
    {"rnbqkbnr/ppp1pppp/8/3pP3/8/8/PPPP1PPP/RNBQKBNR b KQkq - 0 2", 0x662fafb965db29d4ULL},
    {"rnbqkbnr/ppp1p1pp/8/3pPp2/8/8/PPPP1PPP/RNBQKBNR w KQkq f6 0 3", 0x22a48b5a8e47ff78ULL},
    {"rnbqkbnr/ppp1p1pp/8/3pPp2/8/8/PPPPKPPP/RNBQ1BNR b kq - 0 3", 0x652a607ca3f242c1ULL},
    {"rnbq1bnr/ppp1pkpp/8/3pPp2/8/8/PPPPKPPP/RNBQ1BNR w - - 0 4", 0x00fdd303c946bdd9ULL},
    {"rnbqkbnr/p1pppppp/8/8/PpP4P/8/1P1PPPP1/RNBQKBNR b KQkq c3 0 3", 0x3c8123ea7b067637ULL},
    {"rnbqkbnr/p1pppppp/8/8/P6P/R1p5/1P1PPPP1/1NBQKBNR b Kkq - 0 4", 0x5c3f9b829b279560ULL},
};

// legal positions; every combination of "castling rights left / none left"
// with "en-passant capturer on the left / right / both / none / pinned"
const char* POSITIONS[] = {
    // both sides have castled, ...c7-c5 next to the white d5 pawn
    "r4rk1/pp3ppp/8/2pP4/8/8/PP3PPP/R4RK1 w - c6 0 15",
    // both sides have castled, d2-d4 next to the black c4 pawn
    "r4rk1/pp3ppp/8/8/2pP4/8/PP3PPP/R4RK1 b - d3 0 15",
    // capturer on the right only, white to move
    "r4rk1/pp3ppp/8/3Pp3/8/8/PP3PPP/R4RK1 w - e6 0 15",
    // capturers on both sides, black to move
    "r4rk1/pp3ppp/8/8/2pPp3/8/PP3PPP/R4RK1 b - d3 0 15",
    // capturers on both sides, white to move
    "6k1/8/8/2PpP3/8/8/8/6K1 w - d6 0 40",
    // the only capturer is pinned on the e-file (capture is illegal, file still counts)
    "4r1k1/8/8/3pP3/8/8/8/4K3 w - d6 0 40",
    // no capturer at all: file must not count, with and without rights
    "r4rk1/pp3ppp/8/2p5/8/8/PP3PPP/R4RK1 w - c6 0 15",
    "r3k2r/pp3ppp/8/2p5/8/8/PP3PPP/R3K2R w KQkq c6 0 15",
    // the same capturable situations while castling rights are left
    "r3k2r/pp3ppp/8/2pP4/8/8/PP3PPP/R3K2R w KQkq c6 0 15",
    "r3k2r/pp3ppp/8/8/2pP4/8/PP3PPP/R3K2R b Kq d3 0 15",
    "r3k2r/pp3ppp/8/8/2pP4/8/PP3PPP/R4RK1 b k d3 0 15",
    // rook-pawn files
    "6k1/8/8/Pp6/8/8/8/6K1 w - b6 0 40",
    "6k1/8/8/8/6pP/8/8/6K1 b - h3 0 40",
};

}  // namespace demo

int main()
{
    move_bitboards::init();
    zobrist::init();
    bitbase::init();
    endgame::init();

    // 0. the reference itself must reproduce the published examples
    for (const demo::Sample& s : demo::PUBLISHED)
    {
        if (demo::reference_key(s.fen) != s.key)
        {
            std::printf("ERROR reference implementation disagrees with the published key for %s\n", s.fen);
            return 2;
        }
    }

    int bad = 0, total = 0;
    auto check = [&](const Position& position, const std::string& fen, const char* how) {
        const uint64_t want = demo::reference_key(fen);
        const uint64_t got = PolyglotBook::hash(position);
        ++total;
        if (got != want)
        {
            ++bad;
            std::printf("  mismatch (%s): %s\n    engine    0x%016llx\n    polyglot  0x%016llx\n    xor       0x%016llx\n",
                        how, fen.c_str(), (unsigned long long)got, (unsigned long long)want,
                        (unsigned long long)(got ^ want));
        }
    };

    // 1. published examples and the hand-made positions, set up from FEN
    for (const demo::Sample& s : demo::PUBLISHED) check(Position(s.fen), s.fen, "fen");
    for (const char* fen : demo::POSITIONS) check(Position(fen), fen, "fen");

    // 2. the same kind of position reached by playing moves from the start
    {
        const char* moves[] = {"e2e4", "e7e6", "g1f3", "g8f6", "f1e2", "f8e7",
                               "e1g1", "e8g8", "e4e5", "d7d5"};
        const std::string final_fen = "rnbq1rk1/ppp1bppp/4pn2/3pP3/8/5N2/PPPPBPPP/RNBQ1RK1 w - d6 0 6";
        Position position;
        for (const char* m : moves)
        {
            position.do_move(position.parse_uci(m));
            check(position, position.fen(), "game");
        }
        if (position.fen() != final_fen)
        {
            std::printf("ERROR unexpected final position %s\n", position.fen().c_str());
            return 2;
        }
        check(position, final_fen, "game, final");
    }

    if (bad)
    {
        std::printf("FAIL C18: PolyglotBook::hash differs from the Polyglot key in %d of %d positions\n", bad, total);
        return 1;
    }
    std::printf("PASS C18: PolyglotBook::hash equals the Polyglot key in all %d positions\n", total);
    return 0;
}
