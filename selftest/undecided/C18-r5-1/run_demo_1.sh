#!/usr/bin/env bash
# usage: bash run_demo_1.sh <worktree>
# Builds a small harness (demo_1.cpp) against the engine sources of <worktree>
# and compares PolyglotBook::hash with an independent reading of the Polyglot
# key definition.  exit 0 + PASS when they agree, exit 1 + FAIL otherwise.
set -u
WT="${1:?usage: run_demo_1.sh <worktree>}"
WT="$(cd "$WT" && pwd)"
HERE="$(cd "$(dirname "${BASH_SOURCE[0]}")" && pwd)"
OUT="$(mktemp -d /tmp/c18_demo_XXXXXX)"
trap 'rm -rf "$OUT"' EXIT

# uci.cpp wants the configured header; take it from _build or make one
if [ -f "$WT/_build/chessplusplusConfig.h" ]; then
    CFG="$WT/_build"
else
    CFG="$OUT/cfg"; mkdir -p "$CFG"
    cat > "$CFG/chessplusplusConfig.h" <<'EOC'
#define ENGINE_NAME "chessplusplus"
#define CHESSPLUSPLUS_VERSION "0.0.0"
#define CHESSPLUSPLUS_MAJOR 0
#define CHESSPLUSPLUS_MINOR 0
#define CHESSPLUSPLUS_PATCH 0
#define CHESSPLUSPLUS_TWEAK 0
EOC
fi

CXXFLAGS="-std=gnu++20 -O1 -DLOG_LEVEL=0 -DNDEBUG -I$WT/engine -I$CFG"

# engine sources without main.cpp; polyglot.cpp is #included by the harness
SRCS=$(ls "$WT"/engine/*.cpp | grep -v -e '/main\.cpp$' -e '/polyglot\.cpp$')
echo "$SRCS" | xargs -P 6 -I{} sh -c 'g++ '"$CXXFLAGS"' -c "$1" -o "'"$OUT"'/$(basename "$1" .cpp).o"' _ {} \
    || { echo "ERROR: engine sources do not compile"; exit 2; }
g++ $CXXFLAGS -c "$HERE/demo_1.cpp" -o "$OUT/demo_1.o" || { echo "ERROR: harness does not compile"; exit 2; }
g++ "$OUT"/*.o -o "$OUT/demo_1" -lpthread || { echo "ERROR: link failed"; exit 2; }

"$OUT/demo_1"
exit $?
