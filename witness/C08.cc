// C08.R6 — mate-score encoding: evaluations can never be mistaken for mate scores.
#include "types.h"
#include "value.h"
using namespace engine;

static_assert(VALUE_NONE > VALUE_INFINITE, "VALUE_NONE outside the score range");
static_assert(VALUE_INFINITE > VALUE_MATE, "infinity strictly above every mate score");
static_assert(win_in(0) == VALUE_MATE && lost_in(0) == -VALUE_MATE, "mate-in-0 encodings");
static_assert(win_in(1) == win_in(0) - 1 && lost_in(1) == lost_in(0) + 1, "one ply costs one point");
static_assert(win_in(MAX_DEPTH) > 0 && lost_in(MAX_DEPTH) < 0, "mate range keeps its sign");
static_assert(is_mate(win_in(MAX_DEPTH)) && is_mate(lost_in(MAX_DEPTH)), "deepest mate is a mate score");
static_assert(!is_mate(win_in(MAX_DEPTH) - 1) && !is_mate(lost_in(MAX_DEPTH) + 1), "range boundary exact");
static_assert(!is_mate(VALUE_DRAW) && !is_mate(VALUE_POSITIVE_DRAW), "draw scores are not mates");
static_assert(VALUE_KNOWN_WIN + 8 * VALUE_ALL_PIECES + 8 * MAX_DEPTH <= VALUE_MATE, "known-win band fits under mate");
static_assert(VALUE_KNOWN_WIN + 4 * VALUE_ALL_PIECES < win_in(MAX_DEPTH), "known win plus any material bonus is not a mate score");
static_assert(VALUE_ALL_PIECES < VALUE_KNOWN_WIN, "material alone never reaches the known-win band");
static_assert(VALUE_KNOWN_WIN > 0 && VALUE_ALL_PIECES > 0, "bands are positive");
static_assert(2 * MAX_DEPTH < VALUE_MATE - win_in(MAX_DEPTH) + 2 * MAX_DEPTH, "trivial guard");
static_assert(win_in(2 * MAX_DEPTH) > VALUE_KNOWN_WIN + 4 * VALUE_ALL_PIECES, "mate at the deepest quiescence ply still above evaluations");
