// C16.R1 — the constexpr Move creators put every field where the decoders' layout says
// (from 0-5, to 6-11, promotion 12-14, castling 15-16), for all 64 x 64 x 5 triples.
#include "types.h"
using namespace engine;

constexpr bool creators_ok()
{
    const PieceKind promos[5] = {NO_PIECE_KIND, KNIGHT, BISHOP, ROOK, QUEEN};
    for (uint32_t f = 0; f < 64; ++f)
        for (uint32_t t = 0; t < 64; ++t)
        {
            Move m = create_move(Square(f), Square(t));
            if ((m & 0x3F) != f || ((m >> 6) & 0x3F) != t || (m >> 12) != 0) return false;
            for (PieceKind p : promos)
            {
                Move q = create_promotion(Square(f), Square(t), p);
                if ((q & 0x3F) != f || ((q >> 6) & 0x3F) != t || ((q >> 12) & 0x7) != uint32_t(p) || (q >> 15) != 0)
                    return false;
            }
        }
    return true;
}
static_assert(creators_ok(), "create_move/create_promotion layout");
static_assert(create_castling(KING_CASTLING) == (1u << 15) && create_castling(QUEEN_CASTLING) == (2u << 15), "castling codes");
static_assert((KING_CASTLING_MOVE & 0x7FFF) == 0 && (QUEEN_CASTLING_MOVE & 0x7FFF) == 0, "castling moves carry no from/to/promotion");
static_assert(KING_CASTLING_MOVE != QUEEN_CASTLING_MOVE && KING_CASTLING_MOVE != NO_MOVE && QUEEN_CASTLING_MOVE != NO_MOVE, "castling moves distinct");
static_assert(NO_MOVE == 0, "NO_MOVE is the all-zero encoding (a1a1)");
static_assert(KING_CASTLING == (W_OO | B_OO) && QUEEN_CASTLING == (W_OOO | B_OOO) && ALL_CASTLING == 15, "castling masks");
