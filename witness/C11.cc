// C11.R7 — file/rank/colour constants of bitboard.h and the square helpers of types.h.
#include "types.h"
#include "bitboard.h"
using namespace engine;

constexpr Bitboard col(int f) { Bitboard b = 0; for (int r = 0; r < 8; ++r) b |= 1ULL << (8 * r + f); return b; }
constexpr Bitboard row(int r) { Bitboard b = 0; for (int f = 0; f < 8; ++f) b |= 1ULL << (8 * r + f); return b; }

static_assert(fileA_bb == col(0) && fileB_bb == col(1) && fileC_bb == col(2) && fileD_bb == col(3), "files a-d");
static_assert(fileE_bb == col(4) && fileF_bb == col(5) && fileG_bb == col(6) && fileH_bb == col(7), "files e-h");
static_assert(rank1_bb == row(0) && rank2_bb == row(1) && rank3_bb == row(2) && rank4_bb == row(3), "ranks 1-4");
static_assert(rank5_bb == row(4) && rank6_bb == row(5) && rank7_bb == row(6) && rank8_bb == row(7), "ranks 5-8");
static_assert(all_squares_bb == ~0ULL && no_squares_bb == 0ULL, "full/empty");
static_assert((white_squares_bb ^ black_squares_bb) == all_squares_bb && (white_squares_bb & black_squares_bb) == 0, "colour partition");
static_assert(middle_ranks_bb == (all_squares_bb & ~rank1_bb & ~rank8_bb), "middle ranks");
static_assert(center_bb == ((1ULL << SQ_D4) | (1ULL << SQ_E4) | (1ULL << SQ_D5) | (1ULL << SQ_E5)), "centre");

constexpr bool sq_helpers_ok()
{
    for (uint32_t s = 0; s < 64; ++s)
    {
        Square sq = Square(s);
        if (int(rank(sq)) != int(s / 8) || int(file(sq)) != int(s % 8)) return false;
        if (make_square(rank(sq), file(sq)) != sq) return false;
        if (square_bb(sq) != (1ULL << s)) return false;
        if (flip_vertically(flip_vertically(sq)) != sq || flip_horizontally(flip_horizontally(sq)) != sq) return false;
        if (int(rank(flip_vertically(sq))) != 7 - int(rank(sq)) || file(flip_vertically(sq)) != file(sq)) return false;
        if (int(file(flip_horizontally(sq))) != 7 - int(file(sq)) || rank(flip_horizontally(sq)) != rank(sq)) return false;
        if (normalize(sq, WHITE) != sq || normalize(sq, BLACK) != flip_vertically(sq)) return false;
        // white_squares_bb agrees with sq_color
        bool w = (white_squares_bb >> s) & 1;
        if ((sq_color(sq) == WHITE) != w) return false;
    }
    return true;
}
static_assert(sq_helpers_ok(), "rank/file/make_square/flip/normalize/sq_color are mutually consistent on all 64 squares");
static_assert(SQ_A1 == 0 && SQ_H1 == 7 && SQ_A8 == 56 && SQ_H8 == 63 && NO_SQUARE == 64, "square numbering");
static_assert(SQ_E1 == 4 && SQ_G1 == 6 && SQ_C1 == 2 && SQ_E8 == 60 && SQ_G8 == 62 && SQ_C8 == 58, "castling squares");
static_assert(NORTH == 8 && SOUTH == -8 && EAST == 1 && WEST == -1, "unit directions");
static_assert(NORTHEAST == 9 && NORTHWEST == 7 && SOUTHEAST == -7 && SOUTHWEST == -9, "diagonal directions");
static_assert(DOUBLENORTH == 16 && DOUBLESOUTH == -16, "double steps");
static_assert(WHITE == 0 && BLACK == 1 && (!WHITE) == BLACK && (!BLACK) == WHITE, "colours");
static_assert(make_piece(WHITE, PAWN) == W_PAWN && make_piece(BLACK, PAWN) == B_PAWN && make_piece(BLACK, KING) == B_KING, "make_piece");
static_assert(get_piece_kind(W_KING) == KING && get_piece_kind(B_PAWN) == PAWN && get_piece_kind(B_QUEEN) == QUEEN, "get_piece_kind");
static_assert(get_color(W_KING) == WHITE && get_color(B_PAWN) == BLACK, "get_color");
