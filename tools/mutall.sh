#!/bin/bash
# usage: mutall.sh '<shell edit commands run in scratch copy>' [checks...] : runs all (or the given) checks against a scratch copy; prints non-passing ones
D=$(mktemp -d /tmp/mutall.XXXXXX)
rsync -a --exclude _build --exclude .git /repo/ $D/
(cd $D && eval "$1") || { echo "edit failed"; rm -rf $D; exit 3; }
if cmp -s <(cd /repo && cat engine/*.cpp engine/*.h) <(cd $D && cat engine/*.cpp engine/*.h) 2>/dev/null; then echo "NO-OP MUTANT"; fi
shift
CH=${@:-C01 C02 C03 C04 C05 C06 C07 C08 C09 C10 C11 C12 C13 C14 C15 C16 C17 C18 C19 C20}
run1() { c=$1; D=$2; out=$(VERIF_EVIDENCE_DIR=$D/.ev/$c VERIF_REPLAY_DIR=$D/.rp/$c VERIF_REPO=$D python3 /verif/checks/run.py $c 2>&1); rc=$?; if [ $rc -ne 0 ]; then echo "== $c exit=$rc"; echo "$out" | grep -E "refuted|ANALYSIS" | cut -c1-260 | head -4; fi; }
export -f run1
# build the facts once (shared cache), then run the checks in parallel
VERIF_REPO=$D python3 -c "import sys; sys.path.insert(0,'/verif/checks'); import prog; prog.load()" >/dev/null 2>&1
echo $CH | tr ' ' '\n' | xargs -P 10 -I{} bash -c "run1 {} $D"
rm -rf $D
echo "(done)"
