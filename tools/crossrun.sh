#!/bin/bash
# usage: crossrun.sh <out log> [jobs] : every stored behaviour-preserving change (selftest/benign, identical diffs once) against
# every check; prints the non-passing (exit 1 = false alarm, exit 2 = undecided) ones. A development aid, not a registered check.
OUT=${1:-/tmp/crossrun.log}; J=${2:-2}
: > $OUT
one() { f=$1; r=$(/verif/tools/mutall.sh "patch -p1 -s < $f" | grep -v "^(done)" | cut -c1-260); echo "### $(basename $f .diff)"$'\n'"$r"; }
export -f one
md5sum /verif/selftest/benign/*.diff | sort | awk '!seen[$1]++ {print $2}' | xargs -P $J -I{} bash -c 'one {}' >> $OUT 2>&1
echo "ALL DONE" >> $OUT
