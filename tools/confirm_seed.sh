#!/bin/bash
# usage: confirm_seed.sh <seed dir> <k>
# Confirms in a scratch worktree that patch_k compiles with the project flags, keeps the unit tests passing,
# makes its demo fail, and that the demo passes on the unchanged tree. Then runs the owning check against /repo
# with the patch applied and reverts it.
set -u
SD=$1; K=$2
WT=/tmp/confirm-wt
if [ ! -d $WT ]; then git -C /repo worktree add -f --detach $WT HEAD >/dev/null 2>&1; fi
cd $WT && git checkout -q --detach $(git -C /repo rev-parse HEAD) 2>/dev/null; git checkout -q -- . ; git clean -fdq -e _build
if [ ! -f _build/build.ninja ]; then cmake -G Ninja -B _build -S . -DFETCHCONTENT_SOURCE_DIR_GOOGLETEST=/usr/src/googletest -DFETCHCONTENT_FULLY_DISCONNECTED=ON >/dev/null; fi
git apply --check $SD/patch_$K.diff || { echo "CONFIRM patch does not apply"; exit 2; }
git apply $SD/patch_$K.diff
B=$(cmake --build _build -j16 2>&1 | grep -cE "error|FAILED")
T=$(./_build/unitTests 2>&1 | tail -1)
echo "CONFIRM build_errors=$B unit='$T'"
( cd $SD && timeout 900 bash run_demo_$K.sh $WT >/tmp/confirm_demo_with.log 2>&1 ); DW=$?
git checkout -q -- .
( cd $SD && timeout 900 bash run_demo_$K.sh /repo >/tmp/confirm_demo_without.log 2>&1 ); DO=$?
echo "CONFIRM demo_with_change_exit=$DW demo_without_change_exit=$DO"
