#!/bin/bash
# usage: reftest.sh <dir with refactor_k.diff> : every check must stay silent on each behaviour-preserving change
for d in "$1"/refactor_*.diff; do echo "### $d"; /verif/tools/mutall.sh "patch -p1 -s < $d" | grep -v "^(done)"; done
