#!/usr/bin/env python3
"""re-runs the owning check on every seeded change (scratch copy) and rewrites meta.json's caught_by with the rules refuted now"""
import glob, json, os, re, shutil, subprocess, sys, tempfile
from concurrent.futures import ThreadPoolExecutor

def one(d):
    name = os.path.basename(d)
    pid = name.split('-')[0]
    tmp = tempfile.mkdtemp(prefix='refresh-')
    try:
        subprocess.run(['rsync', '-a', '--exclude', '_build', '--exclude', '.git', '/repo/', tmp + '/'], check=True)
        r = subprocess.run(['patch', '-p1', '-s', '-d', tmp, '-i', os.path.join(d, 'patch.diff')], capture_output=True)
        if r.returncode != 0:
            return name, None, 'patch does not apply'
        env = dict(os.environ, VERIF_REPO=tmp, VERIF_EVIDENCE_DIR=tmp + '/.ev', VERIF_REPLAY_DIR=tmp + '/.rp', VERIF_SELFTEST='0')
        p = subprocess.run([sys.executable, '/verif/checks/run.py', pid], env=env, capture_output=True, text=True)
        rules = sorted({m for m in re.findall(r'refuted: rule=(\S+)', p.stdout)})
        return name, p.returncode, rules
    finally:
        shutil.rmtree(tmp, ignore_errors=True)

dirs = sorted(glob.glob('/verif/seeded/*'))
with ThreadPoolExecutor(max_workers=8) as ex:
    for name, rc, rules in ex.map(one, dirs):
        mp = os.path.join('/verif/seeded', name, 'meta.json')
        m = json.load(open(mp))
        if rc == 1 and rules:
            m['caught_by'] = rules
            json.dump(m, open(mp, 'w'), indent=1)
        print(name, rc, rules)
