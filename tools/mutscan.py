#!/usr/bin/env python3
"""mutscan.py <file> <first line> <last line> <out dir> <checks...>
Systematic single-statement mutants of a source range (statement deletion, relational operator swap, && <-> ||, +1/-1 on
small literals); every check named is run against a scratch copy of /repo with the mutant applied. Prints one line per
mutant: line, kind, the checks that report it (exit 1), those that stop (exit 2); mutants nobody reports are the ones to read.
A development aid (not a registered check): it shows where the rule set is blind."""
import os, re, subprocess, sys, tempfile, shutil, json
from concurrent.futures import ThreadPoolExecutor

path, lo, hi, out = sys.argv[1], int(sys.argv[2]), int(sys.argv[3]), sys.argv[4]
hi = min(hi, len(open(os.path.join("/repo", path)).read().split("\n")))
checks = sys.argv[5:]
src = open(os.path.join('/repo', path)).read().split('\n')
os.makedirs(out, exist_ok=True)


def mutants():
    for i in range(lo - 1, hi):
        l = src[i]
        s = l.strip()
        if not s or s.startswith('//') or s.startswith('ASSERT') or s.startswith('LOG_'):
            continue
        # deletion of a one-line expression statement
        if s.endswith(';') and not s.startswith(('return', 'break', 'continue', 'else', 'case', 'default', '}')) and \
                not re.match(r'^(const\s+)?[\w:<>]+[\s\*&]+\w+(\s*=.*)?;$', s) and '(' in s or re.match(r'^[\w\[\]\.\->_]+\s*([\+\-\|\&\^]?=|\+\+|--)', s) and s.endswith(';'):
            if s.count('(') == s.count(')') and not s.startswith(('if', 'for', 'while')):
                yield i, 'delete', l.replace(s, ';')
        for a, b in (('<=', '<'), ('>=', '>'), (' < ', ' <= '), (' > ', ' >= '), ('==', '!='), ('!=', '=='), ('&&', '||'), ('||', '&&')):
            if a in l and 'template' not in l and '#include' not in l and '<<' not in l and '>>' not in l and '->' not in l:
                yield i, '%s->%s' % (a.strip(), b.strip()), l.replace(a, b, 1)
        for m in re.finditer(r'(<<|>>) (\d+)\b', l):
            if 'stream' not in l and 'cout' not in l and 'template' not in l:
                yield i, 'shift+1', l[:m.start(2)] + str(int(m.group(2)) + 1) + l[m.end(2):]
        for m in re.finditer(r'& (0x[0-9A-Fa-f]{1,2})\b', l):
            v = int(m.group(1), 16)
            yield i, 'mask>>1', l[:m.start(1)] + hex(v >> 1) + l[m.end(1):]
        m = re.search(r'([+\-] )([1-9])\b', l)
        if m and 'case' not in l:
            yield i, 'const+1', l[:m.start(2)] + str(int(m.group(2)) + 1) + l[m.end(2):]


def run(item):
    i, kind, new = item
    d = tempfile.mkdtemp(prefix='mutscan-')
    try:
        subprocess.run(['rsync', '-a', '--exclude', '_build', '--exclude', '.git', '/repo/', d + '/'], check=True)
        lines = list(src)
        lines[i] = new
        open(os.path.join(d, path), 'w').write('\n'.join(lines))
        # must still compile
        cc = subprocess.run(['clang++', '-std=gnu++20', '-fsyntax-only', '-DNDEBUG', '-DLOG_LEVEL=0', '-I', d + '/engine', '-I', '/tmp/mutscan/cfg', '-Wall', '-Wextra', '-Werror', '-Wno-unused-parameter', '-Wno-unused-private-field', '-x', 'c++', os.path.join(d, path)],
                            capture_output=True, text=True)
        if cc.returncode != 0:
            return i, kind, None, None, new
        hit, brk = [], []
        for c in checks:
            env = dict(os.environ, VERIF_REPO=d, VERIF_EVIDENCE_DIR=d + '/.ev/' + c, VERIF_REPLAY_DIR=d + '/.rp/' + c, VERIF_SELFTEST='0')
            r = subprocess.run([sys.executable, '/verif/checks/run.py', c], env=env, capture_output=True, text=True)
            if r.returncode == 1:
                hit.append(c)
            elif r.returncode != 0:
                brk.append(c)
        return i, kind, hit, brk, new
    finally:
        shutil.rmtree(d, ignore_errors=True)


items = list(mutants())
print('%d mutants' % len(items), flush=True)
with ThreadPoolExecutor(max_workers=int(os.environ.get('MUTSCAN_J', '4'))) as ex:
    for i, kind, hit, brk, new in ex.map(run, items):
        if hit is None:
            continue
        tag = 'SURVIVED' if not hit and not brk else ('stopped ' if not hit else 'reported')
        print('%s %s:%d %-8s hit=%s broken=%s | %s' % (tag, path, i + 1, kind, ','.join(hit), ','.join(brk), new.strip()[:110]), flush=True)
