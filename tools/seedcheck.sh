#!/bin/bash
# usage: seedcheck.sh <patch file> <Cnn> [more Cnn...] : apply to /repo, run the checks, undo
P=$1; shift
git -C /repo apply $P || exit 2
for c in "$@"; do VERIF_EVIDENCE_DIR=/tmp/seedcheck-ev VERIF_REPLAY_DIR=/tmp/seedcheck-rp python3 /verif/checks/run.py $c | grep -E "refuted|ANALYSIS|obligations|VIOLATION" | cut -c1-260 | head -6; done
git -C /repo checkout -- .
