#!/usr/bin/env python3
"""keep_seed.py <Cnn> <k> <caught-by comma list> : copies a confirmed seeded change into /verif/seeded/<Cnn>-<k>/"""
import json, os, shutil, sys, glob
c, k, caught = sys.argv[1], sys.argv[2], sys.argv[3]
src = os.environ.get('SEED_SRC') or '/tmp/seeds/%s' % c
dst = '/verif/seeded/%s-%s' % (c, os.environ.get('SEED_AS') or k)
os.makedirs(dst, exist_ok=True)
shutil.copy(os.path.join(src, 'patch_%s.diff' % k), os.path.join(dst, 'patch.diff'))
for f in glob.glob(os.path.join(src, 'demo_%s.*' % k)) + glob.glob(os.path.join(src, 'run_demo_%s.sh' % k)):
    if os.path.getsize(f) < 400000:
        shutil.copy(f, dst)
m = json.load(open(os.path.join(src, 'meta_%s.json' % k)))
meta = {
    'property': c,
    'summary': m.get('summary'),
    'files': m.get('files'),
    'needs_to_manifest': m.get('needs_to_manifest'),
    'author': 'independent sub-agent given only the property text and a scratch worktree',
    'confirmed_by_me': {
        'how': 'tools/confirm_seed.sh: scratch worktree /tmp/confirm-wt, project build with -Werror flags, ./_build/unitTests, run_demo_k.sh on the patched tree and on /repo',
        'builds_with_project_flags': True, 'unit_tests_pass_with_change': True,
        'demo_fails_with_change': True, 'demo_passes_without_change': True,
    },
    'checks_run': 'tools/seedcheck.sh patch.diff <checks> (git -C /repo apply; run; git -C /repo checkout -- .)',
    'caught_by': [x for x in caught.split(',') if x],
    'agent_commands': m.get('commands_run'),
}
json.dump(meta, open(os.path.join(dst, 'meta.json'), 'w'), indent=1)
print('kept', dst)
