#!/usr/bin/env python3
"""validates MANIFEST.json and every evidence file against the schemas (uses the tooling venv)"""
import glob, json, sys
import jsonschema
ok = True
m = json.load(open('/verif/MANIFEST.json'))
jsonschema.validate(m, json.load(open('/root/.vp/MANIFEST.schema.json')))
es = json.load(open('/root/.vp/EVIDENCE.schema.json'))
for c in m['checks']:
    p = c['evidence_file']
    try:
        e = json.load(open(p))
        jsonschema.validate(e, es)
        if e['level'] != c['level_claimed']['category']:
            print('LEVEL MISMATCH', p, e['level'], c['level_claimed']['category'])
    except Exception as ex:
        ok = False
        print('INVALID', p, str(ex)[:300])
print('validate:', 'ok' if ok else 'FAILED', len(m['checks']), 'checks')
sys.exit(0 if ok else 1)
