#!/bin/sh
# Builds the only compiled component (cppfacts). Offline; ~20 s.
set -e
cd "$(dirname "$0")"
mkdir -p bin
SRC=cppfacts/cppfacts.cc
OUT=bin/cppfacts
if [ ! -x "$OUT" ] || [ "$SRC" -nt "$OUT" ]; then
  clang++ $(llvm-config-14 --cxxflags) -std=c++17 -fno-rtti -O1 -w "$SRC" -o "$OUT" \
    /usr/lib/llvm-14/lib/libclang-cpp.so.14 /usr/lib/llvm-14/lib/libLLVM-14.so
fi
echo "cppfacts built: $OUT"
