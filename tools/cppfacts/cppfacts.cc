// cppfacts: exports a compact JSON description of the type-checked program
// (functions with statement trees and CFGs, evaluated constants, enums,
// record layouts) for every declaration located under a given source root.
// All property-specific logic lives in Python (checks/); nothing here knows
// about chess.
//
// usage: cppfacts --root=/repo --out=file.json source.cpp -- <compile flags>

#include "clang/AST/ASTConsumer.h"
#include "clang/AST/ASTContext.h"
#include "clang/AST/Decl.h"
#include "clang/AST/DeclCXX.h"
#include "clang/AST/DeclTemplate.h"
#include "clang/AST/Expr.h"
#include "clang/AST/ExprCXX.h"
#include "clang/AST/RecursiveASTVisitor.h"
#include "clang/AST/Stmt.h"
#include "clang/AST/StmtCXX.h"
#include "clang/Analysis/CFG.h"
#include "clang/Frontend/CompilerInstance.h"
#include "clang/Frontend/FrontendAction.h"
#include "clang/Lex/Lexer.h"
#include "clang/Tooling/CommonOptionsParser.h"
#include "clang/Tooling/Tooling.h"
#include "llvm/Support/CommandLine.h"
#include "llvm/Support/JSON.h"
#include "llvm/Support/raw_ostream.h"

#include <map>
#include <set>
#include <string>
#include <vector>

using namespace clang;
using namespace clang::tooling;
namespace json = llvm::json;

static llvm::cl::OptionCategory Cat("cppfacts options");
static llvm::cl::opt<std::string> Root("root", llvm::cl::desc("source root"),
                                       llvm::cl::init("/repo"),
                                       llvm::cl::cat(Cat));
static llvm::cl::opt<std::string> OutPath("out", llvm::cl::desc("output json"),
                                          llvm::cl::Required,
                                          llvm::cl::cat(Cat));

namespace
{

class Exporter
{
  public:
    Exporter(ASTContext& Ctx, json::OStream& J)
        : Ctx(Ctx), SM(Ctx.getSourceManager()), J(J), PP(Ctx.getLangOpts())
    {
        PP.SuppressTagKeyword = true;
        PP.Bool = true;
        PP.FullyQualifiedName = true;
        PP.SuppressUnwrittenScope = false;
    }

    ASTContext& Ctx;
    SourceManager& SM;
    json::OStream& J;
    PrintingPolicy PP;

    std::map<const Stmt*, int> StmtId;
    std::map<const Decl*, int> LocalId;
    int NextStmt = 0;
    int NextLocal = 0;
    std::vector<const CXXMethodDecl*> PendingLambdas;
    std::set<const FunctionDecl*> Done;

    bool underRoot(SourceLocation L) const
    {
        if (L.isInvalid()) return false;
        SourceLocation E = SM.getExpansionLoc(L);
        PresumedLoc P = SM.getPresumedLoc(E);
        if (P.isInvalid()) return false;
        llvm::StringRef F(P.getFilename());
        return F.startswith(Root);
    }

    std::string fileOf(SourceLocation L) const
    {
        PresumedLoc P = SM.getPresumedLoc(SM.getExpansionLoc(L));
        return P.isValid() ? P.getFilename() : "";
    }

    unsigned lineOf(SourceLocation L) const
    {
        PresumedLoc P = SM.getPresumedLoc(SM.getExpansionLoc(L));
        return P.isValid() ? P.getLine() : 0;
    }

    unsigned colOf(SourceLocation L) const
    {
        PresumedLoc P = SM.getPresumedLoc(SM.getExpansionLoc(L));
        return P.isValid() ? P.getColumn() : 0;
    }

    std::string typeStr(QualType T) const
    {
        if (T.isNull()) return "";
        return T.getAsString(PP);
    }

    std::string canonStr(QualType T) const
    {
        if (T.isNull()) return "";
        return T.getCanonicalType().getAsString(PP);
    }

    static std::string targsOf(const FunctionDecl* FD, const PrintingPolicy& PP)
    {
        std::string S;
        if (const TemplateArgumentList* TA = FD->getTemplateSpecializationArgs())
        {
            llvm::raw_string_ostream OS(S);
            for (unsigned i = 0; i < TA->size(); ++i)
            {
                if (i) OS << ",";
                TA->get(i).print(PP, OS, /*IncludeType*/ false);
            }
        }
        return S;
    }

    // class template specialisation args of the enclosing record (Endgame<kKPK>)
    static std::string classTargsOf(const FunctionDecl* FD,
                                    const PrintingPolicy& PP)
    {
        std::string S;
        if (const auto* MD = dyn_cast<CXXMethodDecl>(FD))
        {
            if (const auto* CTS = dyn_cast<ClassTemplateSpecializationDecl>(
                    MD->getParent()))
            {
                llvm::raw_string_ostream OS(S);
                const TemplateArgumentList& TA = CTS->getTemplateArgs();
                for (unsigned i = 0; i < TA.size(); ++i)
                {
                    if (i) OS << ",";
                    TA.get(i).print(PP, OS, false);
                }
            }
        }
        return S;
    }

    std::string funcName(const FunctionDecl* FD) const
    {
        std::string S;
        llvm::raw_string_ostream OS(S);
        FD->printQualifiedName(OS, PP);
        return S;
    }

    std::string funcId(const FunctionDecl* FD) const
    {
        std::string S = funcName(FD);
        std::string TA = targsOf(FD, PP);
        if (!TA.empty()) S += "<" + TA + ">";
        S += "(";
        for (unsigned i = 0; i < FD->getNumParams(); ++i)
        {
            if (i) S += ",";
            S += canonStr(FD->getParamDecl(i)->getType());
        }
        S += ")";
        if (const auto* MD = dyn_cast<CXXMethodDecl>(FD))
            if (MD->isConst()) S += "const";
        if (const auto* MD = dyn_cast<CXXMethodDecl>(FD))
            if (MD->getParent()->isLambda())
            {
                S += "@" + std::to_string(lineOf(FD->getLocation())) + ":" +
                     std::to_string(colOf(FD->getLocation()));
            }
        return S;
    }

    int localId(const Decl* D)
    {
        auto It = LocalId.find(D);
        if (It != LocalId.end()) return It->second;
        int Id = NextLocal++;
        LocalId[D] = Id;
        return Id;
    }

    // ------------------------------------------------------------------
    // APValue -> JSON
    void emitAPValue(const APValue& V, QualType T)
    {
        switch (V.getKind())
        {
        case APValue::Int:
        {
            const llvm::APSInt& I = V.getInt();
            if (I.isSigned())
                J.value(I.getSExtValue());
            else
                J.value(json::Value(uint64_t(I.getZExtValue())));
            return;
        }
        case APValue::Float:
            J.value(V.getFloat().convertToDouble());
            return;
        case APValue::Array:
        {
            QualType ET;
            if (!T.isNull())
                if (const ArrayType* AT = Ctx.getAsArrayType(T))
                    ET = AT->getElementType();
            J.arrayBegin();
            unsigned N = V.getArraySize();
            unsigned NI = V.getArrayInitializedElts();
            for (unsigned i = 0; i < N; ++i)
            {
                if (i < NI)
                    emitAPValue(V.getArrayInitializedElt(i), ET);
                else if (V.hasArrayFiller())
                    emitAPValue(V.getArrayFiller(), ET);
                else
                    J.value(nullptr);
            }
            J.arrayEnd();
            return;
        }
        case APValue::Struct:
        {
            J.arrayBegin();
            const RecordDecl* RD = nullptr;
            if (!T.isNull())
                if (const RecordType* RT = T->getAs<RecordType>())
                    RD = RT->getDecl();
            std::vector<QualType> FT;
            if (RD)
                for (const FieldDecl* F : RD->fields()) FT.push_back(F->getType());
            // std::array and friends: bases first (none expected), then fields
            for (unsigned i = 0; i < V.getStructNumBases(); ++i)
                emitAPValue(V.getStructBase(i), QualType());
            for (unsigned i = 0; i < V.getStructNumFields(); ++i)
                emitAPValue(V.getStructField(i),
                            i < FT.size() ? FT[i] : QualType());
            J.arrayEnd();
            return;
        }
        default:
            J.value(nullptr);
            return;
        }
    }

    // ------------------------------------------------------------------
    // Statement trees

    static const Stmt* strip(const Stmt* S)
    {
        while (S)
        {
            if (const auto* P = dyn_cast<ParenExpr>(S))
                S = P->getSubExpr();
            else if (const auto* F = dyn_cast<FullExpr>(S))
                S = F->getSubExpr();
            else if (const auto* M = dyn_cast<MaterializeTemporaryExpr>(S))
                S = M->getSubExpr();
            else if (const auto* B = dyn_cast<CXXBindTemporaryExpr>(S))
                S = B->getSubExpr();
            else if (const auto* I = dyn_cast<ImplicitCastExpr>(S))
            {
                switch (I->getCastKind())
                {
                case CK_LValueToRValue:
                case CK_NoOp:
                case CK_FunctionToPointerDecay:
                case CK_BuiltinFnToFnPtr:
                    S = I->getSubExpr();
                    break;
                default: return S;
                }
            }
            else
                return S;
        }
        return S;
    }

    void recordWrappers(const Stmt* Outer, int Id)
    {
        // every wrapper stripped on the way maps to the same id
        const Stmt* S = Outer;
        while (S)
        {
            StmtId[S] = Id;
            const Stmt* N = nullptr;
            if (const auto* P = dyn_cast<ParenExpr>(S))
                N = P->getSubExpr();
            else if (const auto* F = dyn_cast<FullExpr>(S))
                N = F->getSubExpr();
            else if (const auto* M = dyn_cast<MaterializeTemporaryExpr>(S))
                N = M->getSubExpr();
            else if (const auto* B = dyn_cast<CXXBindTemporaryExpr>(S))
                N = B->getSubExpr();
            else if (const auto* I = dyn_cast<ImplicitCastExpr>(S))
            {
                switch (I->getCastKind())
                {
                case CK_LValueToRValue:
                case CK_NoOp:
                case CK_FunctionToPointerDecay:
                case CK_BuiltinFnToFnPtr:
                    N = I->getSubExpr();
                    break;
                default: N = nullptr;
                }
            }
            S = N;
        }
    }

    void emitDeclRef(const ValueDecl* D)
    {
        J.attributeBegin("ref");
        J.objectBegin();
        std::string Name;
        {
            llvm::raw_string_ostream OS(Name);
            D->printQualifiedName(OS, PP);
        }
        J.attribute("n", Name);
        const char* K = "Other";
        bool Local = false;
        if (isa<ParmVarDecl>(D))
        {
            K = "Parm";
            Local = true;
        }
        else if (const auto* VD = dyn_cast<VarDecl>(D))
        {
            if (VD->isLocalVarDecl() || VD->isStaticLocal())
            {
                K = VD->isStaticLocal() ? "StaticLocal" : "Local";
                Local = true;
            }
            else if (VD->isStaticDataMember())
                K = "StaticMember";
            else
                K = "Global";
        }
        else if (const auto* FD = dyn_cast<FieldDecl>(D))
        {
            K = "Field";
            std::string Own;
            llvm::raw_string_ostream OS(Own);
            FD->getParent()->printQualifiedName(OS, PP);
            OS.flush();
            J.attribute("own", Own);
        }
        else if (isa<EnumConstantDecl>(D))
            K = "Enum";
        else if (isa<CXXMethodDecl>(D))
            K = "Method";
        else if (isa<FunctionDecl>(D))
            K = "Func";
        else if (isa<BindingDecl>(D))
        {
            K = "Binding";
            Local = true;
        }
        J.attribute("k", K);
        if (Local)
        {
            J.attribute("id", localId(D));
            J.attribute("n", D->getNameAsString());
        }
        if (const auto* FD = dyn_cast<FunctionDecl>(D))
            J.attribute("fid", funcId(FD));
        J.objectEnd();
        J.attributeEnd();
    }

    void emitCallee(const FunctionDecl* FD)
    {
        if (!FD) return;
        J.attributeBegin("callee");
        J.objectBegin();
        J.attribute("n", funcName(FD));
        J.attribute("fid", funcId(FD));
        std::string TA = targsOf(FD, PP);
        if (!TA.empty()) J.attribute("targs", TA);
        if (const auto* MD = dyn_cast<CXXMethodDecl>(FD))
        {
            if (MD->isVirtual()) J.attribute("virt", true);
            if (MD->isConst()) J.attribute("const", true);
            if (MD->isStatic()) J.attribute("static", true);
        }
        J.objectEnd();
        J.attributeEnd();
    }

    void emitLoc(SourceLocation L)
    {
        J.attribute("l", (int64_t)lineOf(L));
        J.attribute("c", (int64_t)colOf(L));
        if (L.isMacroID())
        {
            llvm::StringRef M =
                Lexer::getImmediateMacroName(L, SM, Ctx.getLangOpts());
            // outermost macro name: walk up expansions
            SourceLocation Cur = L;
            llvm::StringRef Outer = M;
            while (Cur.isMacroID())
            {
                Outer = Lexer::getImmediateMacroName(Cur, SM, Ctx.getLangOpts());
                Cur = SM.getImmediateMacroCallerLoc(Cur);
            }
            J.attribute("mac", Outer);
            std::string F = fileOf(L);
            J.attribute("sl", (int64_t)SM.getSpellingLineNumber(L));
        }
    }

    void tryConst(const Expr* E)
    {
        if (E->isValueDependent() || E->isTypeDependent()) return;
        QualType T = E->getType();
        if (T.isNull()) return;
        if (!E->isPRValue() && !isa<DeclRefExpr>(E)) return;
        if (T->isIntegralOrEnumerationType())
        {
            Expr::EvalResult R;
            if (E->EvaluateAsInt(R, Ctx, Expr::SE_NoSideEffects) &&
                !R.HasSideEffects && R.Val.isInt())
            {
                const llvm::APSInt& I = R.Val.getInt();
                if (I.isSigned())
                    J.attribute("cv", I.getSExtValue());
                else
                    J.attribute("cv", json::Value(uint64_t(I.getZExtValue())));
            }
        }
        else if (T->isRealFloatingType())
        {
            llvm::APFloat F(0.0);
            if (E->EvaluateAsFloat(F, Ctx, Expr::SE_NoSideEffects))
            {
                bool Lose;
                F.convert(llvm::APFloat::IEEEdouble(),
                          llvm::APFloat::rmNearestTiesToEven, &Lose);
                J.attribute("cvf", F.convertToDouble());
            }
        }
    }

    void emitVarDeclNode(const VarDecl* VD)
    {
        J.objectBegin();
        J.attribute("i", NextStmt++);
        J.attribute("k", "VarDecl");
        emitLoc(VD->getLocation());
        J.attribute("name", VD->getNameAsString());
        J.attribute("id", localId(VD));
        J.attribute("t", typeStr(VD->getType()));
        std::string CT = canonStr(VD->getType());
        if (CT != typeStr(VD->getType())) J.attribute("ct", CT);
        if (VD->isStaticLocal()) J.attribute("static", true);
        if (const auto* DD = dyn_cast<DecompositionDecl>(VD))
        {
            // structured bindings in declaration order: name and local id
            J.attributeBegin("bindings");
            J.arrayBegin();
            for (const BindingDecl* B : DD->bindings())
            {
                J.objectBegin();
                J.attribute("name", B->getNameAsString());
                J.attribute("id", localId(B));
                J.objectEnd();
            }
            J.arrayEnd();
            J.attributeEnd();
        }
        if (const ConstantArrayType* AT =
                Ctx.getAsConstantArrayType(VD->getType()))
            J.attribute("ext", (int64_t)AT->getSize().getZExtValue());
        if (VD->hasInit() && !VD->getInit()->isValueDependent() &&
            (VD->getType().isConstQualified() || VD->isConstexpr() ||
             VD->getType()->isArrayType()))
        {
            if (const APValue* V = VD->evaluateValue())
            {
                if (V->isInt() || V->isArray() || V->isStruct() || V->isFloat())
                {
                    J.attributeBegin("val");
                    emitAPValue(*V, VD->getType());
                    J.attributeEnd();
                }
            }
        }
        if (VD->hasInit())
        {
            J.attributeBegin("ch");
            J.arrayBegin();
            emitStmt(VD->getInit());
            J.arrayEnd();
            J.attributeEnd();
        }
        J.objectEnd();
    }

    void emitStmt(const Stmt* Outer)
    {
        if (!Outer)
        {
            J.value(nullptr);
            return;
        }
        const Stmt* S = strip(Outer);
        if (!S)
        {
            J.value(nullptr);
            return;
        }
        int Id = NextStmt++;
        recordWrappers(Outer, Id);
        StmtId[S] = Id;

        J.objectBegin();
        J.attribute("i", Id);
        J.attribute("k", S->getStmtClassName());
        emitLoc(S->getBeginLoc());
        unsigned EL = lineOf(S->getEndLoc());
        if (EL != lineOf(S->getBeginLoc())) J.attribute("el", (int64_t)EL);

        if (const auto* E = dyn_cast<Expr>(S))
        {
            std::string T = typeStr(E->getType());
            J.attribute("t", T);
            std::string CT = canonStr(E->getType());
            if (CT != T) J.attribute("ct", CT);
            if (E->isLValue()) J.attribute("lv", true);
            if (!isa<IntegerLiteral>(E) && !isa<StringLiteral>(E) &&
                !isa<InitListExpr>(E) && !isa<LambdaExpr>(E))
                tryConst(E);
        }

        std::vector<const Stmt*> Kids;
        bool KidsDone = false;

        if (const auto* IL = dyn_cast<IntegerLiteral>(S))
        {
            if (IL->getType()->isSignedIntegerType())
                J.attribute("cv", IL->getValue().getSExtValue());
            else
                J.attribute("cv",
                            json::Value(uint64_t(IL->getValue().getZExtValue())));
        }
        else if (const auto* FL = dyn_cast<FloatingLiteral>(S))
        {
            J.attribute("cvf", FL->getValueAsApproximateDouble());
        }
        else if (const auto* CL = dyn_cast<CharacterLiteral>(S))
        {
            J.attribute("cv", (int64_t)CL->getValue());
        }
        else if (const auto* BL = dyn_cast<CXXBoolLiteralExpr>(S))
        {
            J.attribute("cv", (int64_t)BL->getValue());
        }
        else if (const auto* SL = dyn_cast<StringLiteral>(S))
        {
            if (SL->isAscii() || SL->isUTF8()) J.attribute("s", SL->getString());
        }
        else if (const auto* DR = dyn_cast<DeclRefExpr>(S))
        {
            emitDeclRef(DR->getDecl());
        }
        else if (const auto* ME = dyn_cast<MemberExpr>(S))
        {
            emitDeclRef(ME->getMemberDecl());
            if (ME->isArrow()) J.attribute("arrow", true);
            if (ME->isImplicitAccess()) J.attribute("implicit_this", true);
        }
        else if (const auto* BO = dyn_cast<BinaryOperator>(S))
        {
            J.attribute("op", BO->getOpcodeStr());
        }
        else if (const auto* UO = dyn_cast<UnaryOperator>(S))
        {
            J.attribute("op", UnaryOperator::getOpcodeStr(UO->getOpcode()));
            if (UO->isPostfix()) J.attribute("post", true);
        }
        else if (const auto* OC = dyn_cast<CXXOperatorCallExpr>(S))
        {
            J.attribute("op", getOperatorSpelling(OC->getOperator()));
            emitCallee(OC->getDirectCallee());
        }
        else if (const auto* MC = dyn_cast<CXXMemberCallExpr>(S))
        {
            emitCallee(MC->getDirectCallee());
            if (!MC->getDirectCallee()) J.attribute("indirect", true);
        }
        else if (const auto* CE = dyn_cast<CallExpr>(S))
        {
            emitCallee(CE->getDirectCallee());
            if (!CE->getDirectCallee()) J.attribute("indirect", true);
        }
        else if (const auto* CC = dyn_cast<CXXConstructExpr>(S))
        {
            emitCallee(CC->getConstructor());
        }
        else if (const auto* CE2 = dyn_cast<CastExpr>(S))
        {
            J.attribute("ck", CE2->getCastKindName());
        }
        else if (const auto* DS = dyn_cast<DeclStmt>(S))
        {
            J.attributeBegin("ch");
            J.arrayBegin();
            for (const Decl* D : DS->decls())
            {
                if (const auto* VD = dyn_cast<VarDecl>(D))
                    emitVarDeclNode(VD);
            }
            J.arrayEnd();
            J.attributeEnd();
            KidsDone = true;
        }
        else if (const auto* LE = dyn_cast<LambdaExpr>(S))
        {
            const CXXMethodDecl* Op = LE->getCallOperator();
            if (Op)
            {
                J.attribute("lambda", funcId(Op));
                PendingLambdas.push_back(Op);
            }
            // children: capture initialisers
            J.attributeBegin("ch");
            J.arrayBegin();
            for (const Expr* CI : LE->capture_inits()) emitStmt(CI);
            J.arrayEnd();
            J.attributeEnd();
            KidsDone = true;
        }
        else if (const auto* MT = dyn_cast<CXXThisExpr>(S))
        {
            (void)MT;
        }
        else if (const auto* CS = dyn_cast<CaseStmt>(S))
        {
            if (const Expr* L = CS->getLHS())
            {
                Expr::EvalResult R;
                if (!L->isValueDependent() && L->EvaluateAsInt(R, Ctx))
                    J.attribute("casev", R.Val.getInt().getExtValue());
            }
        }
        else if (const auto* SN = dyn_cast<SubstNonTypeTemplateParmExpr>(S))
        {
            if (const NonTypeTemplateParmDecl* PD = SN->getParameter())
                J.attribute("tparm", PD->getNameAsString());
        }
        else if (const auto* SO = dyn_cast<UnaryExprOrTypeTraitExpr>(S))
        {
            J.attribute("trait", (int64_t)SO->getKind());
        }
        else if (const auto* RF = dyn_cast<CXXForRangeStmt>(S))
        {
            // children in a stable order: loopvar decl, range init, body
            J.attributeBegin("ch");
            J.arrayBegin();
            emitStmt(RF->getRangeStmt());
            emitStmt(RF->getBeginStmt());
            emitStmt(RF->getEndStmt());
            emitStmt(RF->getCond());
            emitStmt(RF->getInc());
            emitStmt(RF->getLoopVarStmt());
            emitStmt(RF->getBody());
            J.arrayEnd();
            J.attributeEnd();
            KidsDone = true;
        }

        if (!KidsDone)
        {
            bool Any = false;
            for (const Stmt* C : S->children())
            {
                (void)C;
                Any = true;
                break;
            }
            if (Any)
            {
                J.attributeBegin("ch");
                J.arrayBegin();
                for (const Stmt* C : S->children()) emitStmt(C);
                J.arrayEnd();
                J.attributeEnd();
            }
        }
        J.objectEnd();
    }

    // ------------------------------------------------------------------
    void emitCFG(const FunctionDecl* FD)
    {
        CFG::BuildOptions BO;
        BO.setAllAlwaysAdd();
        BO.AddInitializers = true;
        BO.AddImplicitDtors = false;
        BO.AddTemporaryDtors = false;
        BO.AddEHEdges = false;
        BO.PruneTriviallyFalseEdges = true;
        std::unique_ptr<CFG> G =
            CFG::buildCFG(FD, FD->getBody(), &Ctx, BO);
        if (!G)
        {
            J.attribute("cfg", nullptr);
            return;
        }
        J.attributeBegin("cfg");
        J.objectBegin();
        J.attribute("entry", (int64_t)G->getEntry().getBlockID());
        J.attribute("exit", (int64_t)G->getExit().getBlockID());
        J.attributeBegin("blocks");
        J.arrayBegin();
        for (const CFGBlock* B : *G)
        {
            J.objectBegin();
            J.attribute("id", (int64_t)B->getBlockID());
            J.attributeBegin("el");
            J.arrayBegin();
            int Last = -1;
            for (const CFGElement& E : *B)
            {
                const Stmt* S = nullptr;
                if (auto CS = E.getAs<CFGStmt>())
                    S = CS->getStmt();
                else if (auto CI = E.getAs<CFGInitializer>())
                    S = CI->getInitializer()->getInit();
                if (!S) continue;
                auto It = StmtId.find(S);
                int Id = It == StmtId.end() ? -1 : It->second;
                if (Id == -1)
                {
                    // synthesized DeclStmt for one declarator of a group
                    if (const auto* DS = dyn_cast<DeclStmt>(S))
                        if (DS->isSingleDecl())
                            if (const auto* VD =
                                    dyn_cast<VarDecl>(DS->getSingleDecl()))
                                if (VD->hasInit())
                                {
                                    auto It2 = StmtId.find(VD->getInit());
                                    if (It2 != StmtId.end()) Id = It2->second;
                                }
                }
                if (Id == -1 || Id == Last) continue;
                Last = Id;
                J.value(Id);
            }
            J.arrayEnd();
            J.attributeEnd();
            J.attributeBegin("succ");
            J.arrayBegin();
            for (auto I = B->succ_begin(); I != B->succ_end(); ++I)
            {
                const CFGBlock* SB = I->getReachableBlock();
                if (SB)
                    J.value((int64_t)SB->getBlockID());
                else
                    J.value(nullptr);
            }
            J.arrayEnd();
            J.attributeEnd();
            if (const Stmt* T = B->getTerminatorStmt())
            {
                auto It = StmtId.find(T);
                J.attribute("term", It == StmtId.end() ? -1 : It->second);
                J.attribute("termk", T->getStmtClassName());
            }
            if (const Stmt* C = B->getTerminatorCondition(false))
            {
                auto It = StmtId.find(C);
                J.attribute("cond", It == StmtId.end() ? -1 : It->second);
            }
            if (const Stmt* L = B->getLabel())
            {
                auto It = StmtId.find(L);
                J.attribute("label", It == StmtId.end() ? -1 : It->second);
            }
            if (B->hasNoReturnElement()) J.attribute("noreturn", true);
            J.objectEnd();
        }
        J.arrayEnd();
        J.attributeEnd();
        J.objectEnd();
        J.attributeEnd();
    }

    void emitFunction(const FunctionDecl* FD)
    {
        if (Done.count(FD)) return;
        Done.insert(FD);
        StmtId.clear();
        LocalId.clear();
        NextStmt = 0;
        NextLocal = 0;

        J.objectBegin();
        J.attribute("id", funcId(FD));
        J.attribute("name", funcName(FD));
        std::string TA = targsOf(FD, PP);
        if (!TA.empty()) J.attribute("targs", TA);
        std::string CTA = classTargsOf(FD, PP);
        if (!CTA.empty()) J.attribute("ctargs", CTA);
        J.attribute("file", fileOf(FD->getBody() ? FD->getBody()->getBeginLoc() : FD->getLocation()));
        J.attribute("line", (int64_t)lineOf(FD->getBeginLoc()));
        J.attribute("endline", (int64_t)lineOf(FD->getEndLoc()));
        J.attribute("ret", typeStr(FD->getReturnType()));
        if (FD->isConstexpr()) J.attribute("constexpr", true);
        if (const auto* MD = dyn_cast<CXXMethodDecl>(FD))
        {
            std::string Own;
            llvm::raw_string_ostream OS(Own);
            MD->getParent()->printQualifiedName(OS, PP);
            OS.flush();
            J.attribute("cls", Own);
            if (MD->isConst()) J.attribute("const", true);
            if (MD->isStatic()) J.attribute("static", true);
            if (MD->isVirtual()) J.attribute("virtual", true);
            if (MD->getParent()->isLambda()) J.attribute("is_lambda", true);
            if (MD->size_overridden_methods() > 0)
            {
                J.attributeBegin("overrides");
                J.arrayBegin();
                for (const CXXMethodDecl* O : MD->overridden_methods())
                    J.value(funcId(O));
                J.arrayEnd();
                J.attributeEnd();
            }
        }
        if (isa<CXXConstructorDecl>(FD)) J.attribute("ctor", true);
        J.attributeBegin("params");
        J.arrayBegin();
        for (const ParmVarDecl* P : FD->parameters())
        {
            J.objectBegin();
            J.attribute("name", P->getNameAsString());
            J.attribute("id", localId(P));
            J.attribute("t", typeStr(P->getType()));
            J.attribute("ct", canonStr(P->getType()));
            J.objectEnd();
        }
        J.arrayEnd();
        J.attributeEnd();

        if (const auto* CD = dyn_cast<CXXConstructorDecl>(FD))
        {
            J.attributeBegin("inits");
            J.arrayBegin();
            for (const CXXCtorInitializer* I : CD->inits())
            {
                J.objectBegin();
                if (I->isMemberInitializer() && I->getMember())
                {
                    J.attribute("field", I->getMember()->getNameAsString());
                }
                else if (I->isBaseInitializer())
                    J.attribute("base", typeStr(QualType(I->getBaseClass(), 0)));
                else if (I->isDelegatingInitializer())
                    J.attribute("delegating", true);
                J.attribute("written", I->isWritten());
                J.attributeBegin("init");
                emitStmt(I->getInit());
                J.attributeEnd();
                J.objectEnd();
            }
            J.arrayEnd();
            J.attributeEnd();
        }

        J.attributeBegin("body");
        emitStmt(FD->getBody());
        J.attributeEnd();
        emitCFG(FD);
        J.objectEnd();
    }

    void emitGlobalVar(const VarDecl* VD)
    {
        J.objectBegin();
        std::string Name;
        {
            llvm::raw_string_ostream OS(Name);
            VD->printQualifiedName(OS, PP);
        }
        J.attribute("name", Name);
        J.attribute("t", typeStr(VD->getType()));
        J.attribute("ct", canonStr(VD->getType()));
        J.attribute("file", fileOf(VD->getLocation()));
        J.attribute("line", (int64_t)lineOf(VD->getLocation()));
        J.attribute("def", VD->isThisDeclarationADefinition() ==
                               VarDecl::Definition);
        if (VD->isConstexpr()) J.attribute("constexpr", true);
        if (VD->getType().isConstQualified()) J.attribute("const", true);
        // array extents
        {
            QualType T = VD->getType();
            std::vector<int64_t> Dims;
            while (const ConstantArrayType* AT = Ctx.getAsConstantArrayType(T))
            {
                Dims.push_back(AT->getSize().getZExtValue());
                T = AT->getElementType();
            }
            if (!Dims.empty())
            {
                J.attributeBegin("dims");
                J.arrayBegin();
                for (int64_t D : Dims) J.value(D);
                J.arrayEnd();
                J.attributeEnd();
                J.attribute("elt", typeStr(T));
            }
        }
        if (VD->hasInit() && !VD->getInit()->isValueDependent())
        {
            QualType T = VD->getType();
            bool Simple = T->isIntegralOrEnumerationType() ||
                          T->isRealFloatingType() || T->isArrayType() ||
                          (T->isRecordType() && VD->isConstexpr());
            if (Simple)
            {
                if (const APValue* V = VD->evaluateValue())
                {
                    if (V->isInt() || V->isArray() || V->isStruct() ||
                        V->isFloat())
                    {
                        J.attributeBegin("val");
                        emitAPValue(*V, VD->getType());
                        J.attributeEnd();
                    }
                }
            }
            StmtId.clear();
            NextStmt = 0;
            J.attributeBegin("init");
            emitStmt(VD->getInit());
            J.attributeEnd();
        }
        J.objectEnd();
    }

    void emitEnum(const EnumDecl* ED)
    {
        J.objectBegin();
        std::string Name;
        {
            llvm::raw_string_ostream OS(Name);
            ED->printQualifiedName(OS, PP);
        }
        J.attribute("name", Name);
        J.attribute("file", fileOf(ED->getLocation()));
        J.attribute("line", (int64_t)lineOf(ED->getLocation()));
        J.attribute("underlying", typeStr(ED->getIntegerType()));
        J.attribute("scoped", ED->isScoped());
        J.attributeBegin("enumerators");
        J.arrayBegin();
        for (const EnumConstantDecl* EC : ED->enumerators())
        {
            J.arrayBegin();
            J.value(EC->getNameAsString());
            J.value(EC->getInitVal().getExtValue());
            J.arrayEnd();
        }
        J.arrayEnd();
        J.attributeEnd();
        J.objectEnd();
    }

    void emitRecord(const CXXRecordDecl* RD)
    {
        J.objectBegin();
        std::string Name;
        {
            llvm::raw_string_ostream OS(Name);
            RD->printQualifiedName(OS, PP);
            if (const auto* CTS = dyn_cast<ClassTemplateSpecializationDecl>(RD))
            {
                OS << "<";
                const TemplateArgumentList& TA = CTS->getTemplateArgs();
                for (unsigned i = 0; i < TA.size(); ++i)
                {
                    if (i) OS << ",";
                    TA.get(i).print(PP, OS, false);
                }
                OS << ">";
            }
        }
        J.attribute("name", Name);
        J.attribute("file", fileOf(RD->getLocation()));
        J.attribute("line", (int64_t)lineOf(RD->getLocation()));
        J.attributeBegin("bases");
        J.arrayBegin();
        for (const CXXBaseSpecifier& B : RD->bases()) J.value(typeStr(B.getType()));
        J.arrayEnd();
        J.attributeEnd();
        J.attributeBegin("fields");
        J.arrayBegin();
        for (const FieldDecl* F : RD->fields())
        {
            J.objectBegin();
            J.attribute("name", F->getNameAsString());
            J.attribute("t", typeStr(F->getType()));
            J.attribute("ct", canonStr(F->getType()));
            J.attribute("line", (int64_t)lineOf(F->getLocation()));
            QualType T = F->getType();
            std::vector<int64_t> Dims;
            while (const ConstantArrayType* AT = Ctx.getAsConstantArrayType(T))
            {
                Dims.push_back(AT->getSize().getZExtValue());
                T = AT->getElementType();
            }
            if (!Dims.empty())
            {
                J.attributeBegin("dims");
                J.arrayBegin();
                for (int64_t D : Dims) J.value(D);
                J.arrayEnd();
                J.attributeEnd();
            }
            if (F->hasInClassInitializer())
            {
                J.attribute("has_init", true);
                const Expr* IE = F->getInClassInitializer();
                if (!IE)
                {
                    // lazily instantiated member initialiser of a class template specialisation: read the pattern's
                    if (const FieldDecl* PF = dyn_cast_or_null<FieldDecl>(F->getASTContext().getInstantiatedFromUnnamedFieldDecl(const_cast<FieldDecl*>(F))))
                        IE = PF->getInClassInitializer();
                    if (!IE)
                        if (const CXXRecordDecl* Pat = RD->getTemplateInstantiationPattern())
                            for (const FieldDecl* PF : Pat->fields())
                                if (PF->getName() == F->getName()) IE = PF->getInClassInitializer();
                }
                if (IE)
                {
                    Expr::EvalResult R;
                    if (!IE->isValueDependent() && IE->EvaluateAsInt(R, RD->getASTContext()))
                        J.attribute("init_cv", (int64_t)R.Val.getInt().getExtValue());
                }
            }
            if (F->isMutable()) J.attribute("mutable", true);
            J.objectEnd();
        }
        J.arrayEnd();
        J.attributeEnd();
        J.attributeBegin("methods");
        J.arrayBegin();
        for (const CXXMethodDecl* M : RD->methods())
        {
            if (M->isImplicit()) continue;
            J.objectBegin();
            J.attribute("fid", funcId(M));
            J.attribute("name", M->getNameAsString());
            if (M->isConst()) J.attribute("const", true);
            if (M->isVirtual()) J.attribute("virtual", true);
            if (M->isPure()) J.attribute("pure", true);
            J.attribute("access", (int64_t)M->getAccess());
            J.objectEnd();
        }
        J.arrayEnd();
        J.attributeEnd();
        J.objectEnd();
    }
};

class Collector : public RecursiveASTVisitor<Collector>
{
  public:
    explicit Collector(Exporter& X) : X(X) {}
    Exporter& X;
    std::vector<const FunctionDecl*> Funcs;
    std::vector<const VarDecl*> Vars;
    std::vector<const EnumDecl*> Enums;
    std::vector<const CXXRecordDecl*> Records;
    std::vector<std::string> Templates;

    bool shouldVisitTemplateInstantiations() const { return true; }
    bool shouldVisitImplicitCode() const { return false; }

    bool VisitFunctionDecl(FunctionDecl* FD)
    {
        if (!FD->doesThisDeclarationHaveABody()) return true;
        if (!X.underRoot(FD->getLocation())) return true;
        if (FD->isImplicit()) return true;
        if (FD->isDependentContext())
        {
            Templates.push_back(X.funcName(FD));
            return true;
        }
        if (const auto* MD = dyn_cast<CXXMethodDecl>(FD))
            if (MD->getParent()->isLambda()) return true;  // via LambdaExpr
        Funcs.push_back(FD);
        return true;
    }

    bool VisitVarDecl(VarDecl* VD)
    {
        if (!X.underRoot(VD->getLocation())) return true;
        if (isa<ParmVarDecl>(VD)) return true;
        if (!(VD->isFileVarDecl() || VD->isStaticDataMember())) return true;
        if (VD->isStaticLocal()) return true;
        if (VD->getDeclContext()->isDependentContext()) return true;
        Vars.push_back(VD);
        return true;
    }

    bool VisitEnumDecl(EnumDecl* ED)
    {
        if (!X.underRoot(ED->getLocation())) return true;
        if (!ED->isCompleteDefinition()) return true;
        Enums.push_back(ED);
        return true;
    }

    bool VisitCXXRecordDecl(CXXRecordDecl* RD)
    {
        if (!X.underRoot(RD->getLocation())) return true;
        if (!RD->isCompleteDefinition()) return true;
        if (RD->isLambda()) return true;
        if (RD->isDependentContext()) return true;
        Records.push_back(RD);
        return true;
    }
};

class Consumer : public ASTConsumer
{
  public:
    void HandleTranslationUnit(ASTContext& Ctx) override
    {
        std::error_code EC;
        llvm::raw_fd_ostream OS(OutPath, EC);
        if (EC)
        {
            llvm::errs() << "cannot open " << OutPath << "\n";
            exit(3);
        }
        if (Ctx.getDiagnostics().hasErrorOccurred())
        {
            llvm::errs() << "cppfacts: parse errors\n";
            exit(4);
        }
        json::OStream J(OS, 0);
        Exporter X(Ctx, J);
        Collector C(X);
        C.TraverseDecl(Ctx.getTranslationUnitDecl());

        SourceManager& SM = Ctx.getSourceManager();
        J.objectBegin();
        J.attribute("tu",
                    SM.getFileEntryForID(SM.getMainFileID())->getName());
        J.attributeBegin("funcs");
        J.arrayBegin();
        for (const FunctionDecl* FD : C.Funcs) X.emitFunction(FD);
        // lambdas discovered on the way (may nest)
        while (!X.PendingLambdas.empty())
        {
            const CXXMethodDecl* L = X.PendingLambdas.back();
            X.PendingLambdas.pop_back();
            if (L->doesThisDeclarationHaveABody() && !L->isDependentContext())
                X.emitFunction(L);
            else if (const FunctionTemplateDecl* FT = L->getDescribedFunctionTemplate())
            {
                // generic lambda: export the instantiated call operators
                for (const FunctionDecl* SP : FT->specializations())
                    if (SP->doesThisDeclarationHaveABody() && !SP->isDependentContext())
                        X.emitFunction(SP);
            }
        }
        J.arrayEnd();
        J.attributeEnd();
        J.attributeBegin("templates");
        J.arrayBegin();
        for (const std::string& T : C.Templates) J.value(T);
        J.arrayEnd();
        J.attributeEnd();
        J.attributeBegin("vars");
        J.arrayBegin();
        for (const VarDecl* VD : C.Vars) X.emitGlobalVar(VD);
        J.arrayEnd();
        J.attributeEnd();
        J.attributeBegin("enums");
        J.arrayBegin();
        for (const EnumDecl* ED : C.Enums) X.emitEnum(ED);
        J.arrayEnd();
        J.attributeEnd();
        J.attributeBegin("records");
        J.arrayBegin();
        for (const CXXRecordDecl* RD : C.Records) X.emitRecord(RD);
        J.arrayEnd();
        J.attributeEnd();
        J.objectEnd();
        OS.flush();
    }
};

class Action : public ASTFrontendAction
{
  public:
    std::unique_ptr<ASTConsumer> CreateASTConsumer(CompilerInstance&,
                                                   llvm::StringRef) override
    {
        return std::make_unique<Consumer>();
    }
};

}  // namespace

int main(int argc, const char** argv)
{
    auto Exp = CommonOptionsParser::create(argc, argv, Cat);
    if (!Exp)
    {
        llvm::errs() << llvm::toString(Exp.takeError());
        return 2;
    }
    ClangTool Tool(Exp->getCompilations(), Exp->getSourcePathList());
    return Tool.run(newFrontendActionFactory<Action>().get());
}
