#!/bin/bash
# usage: mut.sh '<shell edit commands run in scratch copy>' <Cnn> : runs the check against a scratch copy of /repo
D=$(mktemp -d /tmp/mut.XXXXXX)
rsync -a --exclude _build --exclude .git /repo/ $D/
(cd $D && eval "$1") || { echo "edit failed"; rm -rf $D; exit 3; }
if cmp -s <(cd /repo && cat engine/*.cpp engine/*.h) <(cd $D && cat engine/*.cpp engine/*.h) 2>/dev/null; then echo "NO-OP MUTANT"; fi
VERIF_EVIDENCE_DIR=$D/.ev VERIF_REPLAY_DIR=$D/.rp VERIF_REPO=$D python3 /verif/checks/run.py $2 | grep -E "refuted|ANALYSIS|obligations" | cut -c1-${3:-240} | head -${4:-8}
rm -rf $D
