#!/usr/bin/env python3
"""prints the markdown table of DESIGN.md §8 from seeded/*/meta.json"""
import json, glob, os, re
rows = []
for d in sorted(glob.glob('/verif/seeded/*'), key=lambda x: (x.split('/')[-1].split('-')[0], int(x.split('-')[-1]))):
    m = json.load(open(os.path.join(d, 'meta.json')))
    name = os.path.basename(d)
    caught = ', '.join('`%s`' % c for c in m.get('caught_by') or [])
    summ = re.sub(r'\s+', ' ', (m.get('summary') or '')).replace('|', '/')
    rows.append('| %s | %s | %s |' % (name, caught, summ[:230] + (' …' if len(summ) > 230 else '')))
print('| change | reported by | what was changed |\n|--------|-------------|------------------|')
print('\n'.join(rows))
