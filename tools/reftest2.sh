#!/bin/bash
# all round-2 refactors: every check on each; prints non-passing
for C in C01 C02 C03 C04 C05 C06 C07 C08 C09 C10 C11 C12 C13 C14 C15 C16 C17 C18 C19 C20; do for k in 1 2 3; do f=/tmp/refs2/$C/refactor_$k.diff; [ -f $f ] || continue; echo "### r2 $C-$k"; /verif/tools/mutall.sh "patch -p1 -s < $f" | grep -v "^(done)" | cut -c1-260; done; done
