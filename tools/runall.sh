#!/bin/bash
# usage: runall.sh [quick|thorough] : every registered check of the tier, in sequence; prints exit codes
T=${1:-quick}
for c in C01 C02 C03 C04 C05 C06 C07 C08 C09 C10 C11 C12 C13 C14 C15 C16 C17 C18 C19 C20; do
  s=$(date +%s); out=$(python3 /verif/checks/run.py $c --tier $T 2>&1); rc=$?; e=$(date +%s)
  echo "$c $T exit=$rc $((e-s))s $(echo "$out" | tail -1 | cut -c1-160)"
done
