#!/usr/bin/env python3
"""Freezes the parameter and local names of every engine function of the current /repo into checks/names.json
(the reference the load-time name normalisation of checks/prog.py maps later trees onto). Run only on a tree on
which every check passes."""
import json
import os
import re
import sys

VERIF = os.path.dirname(os.path.dirname(os.path.abspath(__file__)))
sys.path.insert(0, os.path.join(VERIF, 'checks'))
os.environ['VERIF_NO_NAMES'] = '1'
import prog  # noqa: E402
from rules.effects import canon  # noqa: E402

out = {}
dup = set()
for with_tools in (False, True):
    p = prog.load(with_tools=with_tools)
    for fn in p.funcs.values():
        if fn.body is None or not fn.file.startswith(p.root):
            continue
        key = re.sub(r'@\d+:\d+', '@', fn.id)
        if key in out and out[key].get('_id') != fn.id:
            dup.add(key)
            continue
        fn.frozen_locals = None
        decls = [n for n in fn.all_nodes() if n['k'] == 'VarDecl' and n.get('name')]
        decls.sort(key=lambda n: n.get('id', 0))
        loc = []
        for d in decls:
            ks = [c for c in d.get('ch') or [] if c]
            loc.append([d['name'], d.get('t') or '', canon(fn, ks[0], inline=False) if ks else None])
        out[key] = {'params': [q.get('name') for q in fn.params], 'locals': loc, '_id': fn.id}
for k in dup:
    out.pop(k, None)
for v in out.values():
    v.pop('_id', None)
json.dump(out, open(os.path.join(VERIF, 'checks', 'names.json'), 'w'), indent=0, sort_keys=True)
print('names.json: %d functions' % len(out))
