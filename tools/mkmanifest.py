#!/usr/bin/env python3
"""Regenerates /verif/MANIFEST.json from the table below (single source of truth)."""
import json
import os

VERIF = os.path.dirname(os.path.dirname(os.path.abspath(__file__)))

TB = ('trusted: clang 14 parser/constant evaluator/CFG builder as driven by tools/cppfacts; '
      'flags -std=gnu++20 -DNDEBUG -DLOG_LEVEL=0 stand for the release build; ')

CHECKS = {
    'C19': dict(
        category='other',
        text='Partial. Reader: every use of the 16-byte record buffer is governed by a test of the stream made after the read that filled '
             'it, one append per complete record under its own key, nobody else changes the book; layout: key bytes 0-7 big-endian, move '
             '8-9, weight 10-11, every byte masked, move-code fields (to-file 0-2, to-rank 3-5, from-file 6-8, from-rank 9-11, promotion '
             '12-14, codes 1..4 = N,B,R,Q), argument wiring; decode_move\'s castling table as normalised atoms; best = max_element by weight '
             'over all records of the key; random = sum over all records, sample = random % sum computed only for a positive sum, cumulative '
             'walk selecting the first record whose cumulative weight exceeds the sample (operator chosen to match the sample base), so a '
             'zero-weight record is never selected and each record owns exactly `weight` of the `sum` samples; all-zero keys fall back to '
             'the search; both policies answer decode_move(selected.first); start_searching probes with hash(position) and answers or '
             'searches. Uniformity of the random source (modulo bias) and hence exact proportionality is not decided. A boolean member the case table does not mention is tried both ways: whether the book is consulted must not depend on it.',
        design_ref='DESIGN.md §3 C19',
        note=TB + 'std::istream::read, std::map, std::max_element, std::mt19937 behave as specified.',
        technique='static: dominating-guard rule (check-after-read), PACK/byte-layout extraction, guard-atom tables, cumulative-walk idiom rule'),
    'C18': dict(
        category='other',
        text='Partial. (R1) the 781 clang-evaluated constants, put into the specification order through the engine\'s Piece numbering '
             '(black pawn, white pawn, ..., white king; a1..h8; castling KQkq; e.p. files; turn), are pairwise distinct, carry the 22 widely '
             'quoted published entries at their published indices, and hash to a reference digest frozen on the tree that passes the nine '
             'published test vectors; squares are numbered 8*row+file. (R2) hash() starts at 0 and only XORs; every entry of every piece '
             'list of all twelve pieces contributes TABLE[piece][its square] unconditionally; exactly six special terms: each castling right '
             'governs its own constant once, the e.p. constant of file(ep) is governed by ep != NO_SQUARE and '
             'pawn_attacks(ep, !stm) & pieces(stm, PAWN) != 0, the turn constant by stm == WHITE (conditions compared as normalised atoms). '
             'The values themselves cannot be compared with the publication offline.',
        design_ref='DESIGN.md §3 C18',
        note=TB + 'reference digest in checks/props/C18.py; pawn_attacks/pieces/piece lists as established by C11/C02.',
        technique='static: TABLE relation on evaluated constants (digest + anchors), guard-atom and loop-shape rules over the AST/CFG'),
    'C14': dict(
        category='other',
        text='Partial. Cache transparency, structurally: everything reachable from the cached pawn term reads the position through '
             'pawn-only accessors and no evaluator member, lookup and store use the unchanged pawn key, hit and miss return the same '
             'quantity; for both HashMap instantiations a cleared or never-written slot cannot satisfy the hit test (clear covers all '
             'slots with a value the marker test rejects, insert stores the epoch which starts >= 1 and only grows). '
             'Boundedness: interval evaluation (additive loop rule, legal-material atoms) puts all 17 endgame evaluators, either sign, '
             'and the general evaluation strictly inside (-win_in(MAX_DEPTH), win_in(MAX_DEPTH)) and away from VALUE_NONE. '
             'Collisions of the 64-bit pawn key are probabilistic and not decided. (R6) walking one evaluation in execution order, every member slot of the scorer (attack maps, pin sets, weight, per colour and kind) is first set by an unconditional plain assignment and is not written after it was read.',
        design_ref='DESIGN.md §3 C14',
        note=TB + 'A-MAT: at most 10 pieces of a kind and 8 pawns per colour; pawn key purity is C04; epoch wrap-around after 2^32 not considered.',
        technique='static: effect/reachability rule on accessors, guard-atom reasoning on the cache protocol, interval abstract interpretation, execution-order event walk over member slots (write-before-read, no write after read)'),
    'C13': dict(
        category='proof',
        text='Relational type system for the colour swap (rules/mirror.py): the WHITE and BLACK instantiations (or strongSide = c / !c) '
             'are typed side by side and every expression is classified as equal, mirrored (by C++ type: square/bitboard/rank flipped, '
             'colour/piece/castling swapped), negated, or unstable between a position and its mirror image. Decided: every one of the 17 '
             'endgame evaluators and applicability tests, EndgameBase::score and PositionScorer::score (with setup, piece, pawn, king terms, '
             'outposts and all bitboard helpers) returns an equal value; colour-dependent constants are mirror pairs by clang-evaluated value; '
             'run-time colour choices are mirror pairs (x/flip(x), r/RANK_8-r, v/-v, msb/lsb); every table consulted with an absolute index is '
             'symmetric or covariant by value; iterations over piece lists/bit sets are order independent; both colours are registered, '
             'dispatched first-applicable, and mutually exclusive per type; elements picked by constant index are used symmetrically. (R0) the premise of the side-by-side typing: what one colour\'s pass reads of the scorer\'s members is complete (no member slot is written after it was read, each is set before use; shared with C14.R6). Nothing reachable from the evaluation keeps state between evaluations (C14.R0).',
        design_ref='DESIGN.md §3 C13',
        note=TB + 'A-C11: run-time geometry tables (KING_MASK, KNIGHT_MASK, LINES, FULL_LINES, slider attacks) are mirror-covariant; piece lists '
                  'are unordered sets; four listed exceptions carry a hand argument each (checked to be still needed).',
        technique='static: relational (two-run) type inference over the typed AST of both template instantiations; TABLE relations on evaluated constants'),
    'C01': dict(
        category='other',
        text='Partial: structural necessary conditions of exactness over the seven colour-generic generators, both '
             'instantiations: (M1) every pawn move category is emitted for unpinned pawns and for pinned pawns exactly where '
             'the pin line allows it, incl. en passant with the horizontal-pin test; (M2) every evasion emission is masked by '
             'the check mask, double check yields king moves only; (M3) castling needs the right, empty and unattacked path '
             'tables evaluated by clang equal the rules; (M4) WHITE/BLACK instantiations are mirror images (shift directions, '
             'ranks, offsets); (M5) the forbidden-square and checker routines cover all six attacker kinds with x-ray through '
             'the own king; (M6) dispatch, perft driver and list discipline. That each bitboard expression yields exactly the '
             'legal targets in every position is not decided (rests on C11 for tables); duplicates are not decided.',
        design_ref='DESIGN.md §3 C01',
        note=TB + 'legal input position; attack tables as established by C11.',
        technique='static: category x pin matrix (COVER), dominating-mask rule, TABLE on clang-evaluated constants, mirror-pair agreement'),
    'C12': dict(
        category='other',
        text='Partial: necessary conditions on the KPK retrograde solver and its consumer: (R1) the successor relation is '
             'exactly king steps of the side to move, the single push for White below rank 7, the double push from rank 2 over a '
             'square free of both kings (tested before the target is set), side flipped, WIN/DRAW roles, early-better/unknown/'
             'worse minimax; (R2) getIndex/parse_index bit fields agree, do not overlap, MAX_INDEX and table size follow, writer '
             'and reader address the same bit; (R3) normalisation flips all three squares together; (R4) the five terminal '
             'clauses as normalised atom sets; (R5) full sweeps, only UNKNOWN refined, repeat-until-stable, publish WIN bits '
             'after clearing, single writer; (R6) the evaluator normalises then looks up exactly those squares. Equality of the '
             'computed table with the game-theoretic values needs the fix-point itself and is not decided. Which evaluator scores a position does not depend on earlier evaluations (C14.R0 over the dispatcher).',
        design_ref='DESIGN.md §3 C12',
        note=TB + 'conditions are compared as normalised atom sets over the reachable value ranges (pawn ranks 2..7).',
        technique='static: guard-atom normalisation + dominance rules over the CFG, PACK layout extraction, FILL coverage, who-may-write'),
    'C06': dict(
        category='proof',
        text='Decides the stop-signalling discipline for every schedule by obligations over the whole-program '
             'call graph and CFGs: (R0) the words stop/isready/quit are dispatched to their own handlers; (R1) every location shared between the search thread and the handlers legal '
             'during a search is atomic or mutex-typed; (R2) the stop flag is only ever set to true after '
             'publication, is initialised false by the constructor, and the Search object is published before '
             'the thread starts; (R3) every recursive call and every unbounded loop of the search drivers polls '
             'the flag; (R4) after an observed stop the activation unwinds by returns only; (R5) nothing '
             'reachable from isready/stop blocks and the output lock is released on every path; (R6) the search thread is never detached, '
             'is stopped and joined before a new one replaces it and before its owner is destroyed, and its Search object is created '
             'between that join and the start. '
             'Does NOT decide the promptness bound in seconds (one node of work between polls).',
        design_ref='DESIGN.md §3 C06',
        note=TB + 'UCI protocol restricts commands during a search to stop/isready/quit; field-based sharing; '
                  'exception edges not modelled.',
        technique='static race/effect analysis: thread-root call-graph reachability x field access sets; CFG dominance and path rules'),
    'C05': dict(
        category='other',
        text='Partial. Decides for every path/schedule: exactly one bestmove per go (R1), the NO_MOVE sentinel cannot '
             'reach the printed move (R2, abstract interpretation of the answer field along go->iter_search with the '
             'stop flag unknown at every read), every use of a transposition-table move other than an equality '
             'comparison is behind std::find(begin,end,move)!=end over the node\'s own list (R3), PV moves originate '
             'from that list with the index shown inside [0, end-begin), the PV spliced behind a move is read from the frame every '
             'child search was given and the answer from the frame the root search wrote (R4), ordering only swaps list '
             'elements (R5), no non-returning construct in the search '
             'thread (R6). Legality of the generated list itself is C01; timing is not decided. (R7) rests on C06.R0/R2/R3 (a stop is not lost and is polled); (R8) rests on C03.R3: every move the search makes on its position is taken back on every path, so the answer is formatted from the root position.',
        design_ref='DESIGN.md §3 C05',
        note=TB + 'A-ROOT: root move list non-empty (the property\'s precondition); table scores may steer the choice among legal moves.',
        technique='static: CFG path rules, sentinel dataflow, taint + dominating-guard (control dependence) rule'),
    'C07': dict(
        category='other',
        text='Partial: history push/pop discipline (one per do/undo on every path, none for null moves, nobody else), both '
             'repetition scans over the same index range against the current full key with thresholds 3 and 2, the '
             'insufficient-material whitelist evaluated by clang equals {K-K, KN-K, KB-K, K-KN, K-KB} and the count-vector '
             'packing agrees with Piece numbering and readers, rule50 threshold, is_draw disjunction, checkmate/stalemate '
             'decision tables, attacker-kind cover of is_in_check, consumers. Agreement with the rules for each concrete game is not decided.',
        design_ref='DESIGN.md §3 C07',
        note=TB + 'a king never attacks a king in a legal position; uint8 clock wrap after 255 reversible plies is reported as information.',
        technique='static: PAIR/WHO rules, loop-shape sibling agreement, TABLE relation on clang-evaluated constants, DECISION tables'),
    'C08': dict(
        category='other',
        text='Partial (necessary conditions): the -VALUE_INFINITE initialiser of a max-accumulation loop is never '
             'returned (path-sensitive value analysis over search/quiescence), the UCI formatter converts plies to '
             'moves, both searches adjust mate distances alike after undo_move, the no-legal-move test precedes '
             'quiescence and the table probe, pruning exempts checks, the value searched after a null move only reaches '
             'comparisons, before any move is tried a node returns the draw value only when it is a drawn non-root node '
             '(decision table over stop, limits, is_draw, is_repeated, root, depth 0), a move\'s line becomes the PV only when '
             'its value exceeds a running maximum raised to it and is not overwritten afterwards, and the score bands satisfy the compiled '
             'static_assert witness. Truth/minimality of an announced mate is a game-tree fact and is not decided. Pruning skips only quiet moves (a capture can be the one defence against a mate threat).',
        design_ref='DESIGN.md §3 C08',
        note=TB + 'A-LEN: generated list length >= 0; child results are never +-VALUE_INFINITE (established inductively by R1).',
        technique='static: path-sensitive sentinel analysis, sibling-agreement and dominance rules, static_assert witness TU'),
    'C09': dict(
        category='other',
        text='Partial: every definition of the depth limit is clamped to MAX_DEPTH (R1); the iteration counter is '
             'reset, incremented exactly once per cycle, printed unmodified and tested against the limit on every '
             'cycle (R2); the root list is exactly searchmoves when given, written only by the constructor, and the '
             'ply-0 node iterates only it (R3); each recursive call carries a decreasing measure behind a cut (R4); '
             'check_limits looks at the budgets after finitely many visits (every early return sits behind a decrement of a '
             'counter only it writes and a lower-bound test) and an exceeded node or time budget returns true or raises the '
             'stop flag (R5). Wall-clock adherence is not decided. (R7) the clock budget is bounded (C20.R1).',
        design_ref='DESIGN.md §3 C09',
        note=TB + 'root PV head being an element of the root list relies on C05.R3/R4.',
        technique='static: reaching-definition/interval clamp rule, loop-cycle and dominance rules, recursion measure rule'),
    'C02': dict(
        category='other',
        text='Partial: the update discipline of Position::do_move on every path class. The three board primitives write '
             'every redundant representation and the key consistently and nobody else writes them; the half-move clock is '
             'written exactly once per path (incremented for castling and non-pawn non-captures, reset otherwise); the six '
             'castling-right revocation classes occur exactly once with the right colour/wing mask over checked tables; '
             'e.p. square set only behind a double push with mirror-consistent ranks; history push after all key updates; '
             'the symbolic board effect of each of the seven path classes equals the rule of chess for that kind of move; '
             'replay commands funnel through parse_uci + do_move. The FEN of the result for every concrete pair is not enumerated. The replay loops play every listed word and leave early only on checkmate/stalemate (decided per valuation of what they branch on).',
        design_ref='DESIGN.md §3 C02',
        note=TB + 'A-EP, A-PROMO; the moved piece belongs to the side to move.',
        technique='static: path-class effect summaries vs a rule table, SYNC/WHO rules, control-dependence classification'),
    'C03': dict(
        category='proof',
        text='Restoration is a pairing property. Decides, on every path: per path class (castling K/Q, e.p., capture x '
             'promotion) the board primitives of undo_move are the reversed inverses, per square, of do_move\'s, with the '
             'right piece identities; counters and the side flip are inc/dec-paired exactly once on every path; every '
             'overwritten field is saved before its first write, packed into MoveInfo and assigned back from the matching '
             'accessor; every Position field do_* can write is covered; MoveInfo packer/accessors agree bit for bit and fit '
             'their domains; every make on a shared Position reaches the matching unmake (same move, returned MoveInfo) on '
             'all CFG paths; observers never write Position state. Order inside piece lists is not decided (not observable).',
        design_ref='DESIGN.md §3 C03',
        note=TB + 'A-EP (e.p. target empty, enemy pawn behind it), A-PROMO (promotions are pawn moves, from != to); primitives\' own consistency is C02.R1.',
        technique='static: path-class effect pairing over CFG summaries, PACK layout extraction, PAIR path rule, who-may-write'),
    'C04': dict(
        category='proof',
        text='Decides key maintenance: typestate abstract interpretation shows that at every exit of do_move, undo_move, '
             'do_null_move and undo_null_move (entered in do_null_move\'s exit state) the castling key was set from the '
             'rights after their last change and the e.p. key is cleared iff the square is NO_SQUARE and else its file; '
             'side/piece keys change together with their fields inside the only functions allowed to write them; '
             'HashKey::init and the incremental mutators use the same (component, table, index) triples and cover all '
             'kinds x colours; pawn key purity; no history/counter reads; key = XOR of the five components. '
             'Collision freedom is probabilistic and not decided. No incremental update can precede HashKey::init (which XORs into the components). Position::hash() returns that key and no accessor mixes anything else (a clock) into it.',
        design_ref='DESIGN.md §3 C04',
        note=TB + 'between do_null_move and undo_null_move only balanced make/unmake happens (C03.R3).',
        technique='static: typestate abstract interpretation over CFGs, sibling-agreement (COVER) and who-may-write rules'),
    'C10': dict(
        category='proof',
        text='Partial, by obligations (release configuration: asserts do not exist): every subscript into a fixed-extent '
             'engine buffer (C arrays and std::array, ~830 sites per instantiation) and every square_bb shift is '
             'discharged by a whole-program interval analysis (parameter-interval fixpoint, widening/narrowing, '
             'branch refinement incl. NO_SQUARE tests, non-zero-guarded bit scans, out-parameters, context-sensitive '
             'callee evaluation) or by one of a closed list of named structural rules (piece lists, lockstep counters, '
             'list windows, std::find windows over one row, bitbase index, e.p. geometry) under named chess assumptions; plus search-stack depth, PV '
             'length, move-list rows, pin list, list capacity at every generate_moves call, depth-indexed array (via '
             'C09), definite assignment of uninitialised scalar locals, and scalar members of engine classes initialised by '
             'every constructor that engine code invokes (B12); std::vector subscripts and the history window are '
             'decided by the HEAP rules, the search thread\'s lifetime by C06.R6. An unclassifiable site in reference '
             'code is a violation, in code the reference tree did not have it is analysis-broken (exit 2). A pointer to one hash-table slot (&data_[i], also through a helper that returns it) is never moved off the slot (PTR.slot).',
        design_ref='DESIGN.md §3 C10',
        note=TB + 'assumptions named in evidence: A-PC/A-LIST, A-218, A-SM, A-EP, A-PAWN, A-WF, A-MAT, A-ENUM(decoders).',
        technique='static: interprocedural interval abstract interpretation + named structural bound rules'),
    'C11': dict(
        category='proof',
        text='Full for slider lookups and leaper/line tables under stated structural side conditions: the magic constants '
             'are a perfect hash (or collide only on equal attack sets) for all 107 648 (square, relevant-subset) cases, '
             'index bits fit rows; writer and reader use the same index expression on a subset of the mask; builders walk '
             'exactly the right rays with the nearest-blocker choice matching each ray\'s direction sign; mask builders drop '
             'the right edges; shift<> arms, run-time shift, knight/king/pawn compositions and both line tables match '
             'geometry; init order; compiled witness for file/rank/square helpers.',
        design_ref='DESIGN.md §3 C11',
        note=TB + 'geometry of the 8x8 board implemented once in the checker; RAYS/MASK tables hold what their (structurally checked) builders compute.',
        technique='static: exhaustive relation check over source constants (MAGIC), structural agreement rules, static_assert witness'),
    'C15': dict(
        category='other',
        text='capture/quiet: full relative to five named atoms — both predicates are converted to 32-row decision tables and '
             'equal the specification. gives-check: partial — from()/to() are only evaluated where the move is known not to '
             'be castling (all deciding functions, lambdas included), the direct-check switch is driven by the promoted kind, '
             'covers six kinds with their own attack pattern, discovered checks use the updated occupancy, the e.p. victim is '
             'removed, the castling arm tests the rook destination; the search consults the predicates before do_move. '
             'Equality of the bitboard expressions with "king attacked afterwards" for every position rests on C11. Whether each discovered-check look-up is made is decided per (kind leaving the square, promotion piece).',
        design_ref='DESIGN.md §3 C15',
        note=TB + 'legal positions (no pre-existing check by the mover).',
        technique='static: DECISION tables over resolved comparison atoms, dominating-guard (control dependence) rule, COVER'),
    'C16': dict(
        category='proof',
        text='Encoding: full — bit layouts of create_move/create_promotion/create_castling and from/to/promotion/castling '
             'are extracted and compared (disjoint, same shifts, masks as wide as domains, castling codes round-trip) plus '
             'a compiled witness over all 64x64x5 triples. Text and FEN: the printer tables and parser maps are shown '
             'mutually inverse (file/rank letters, promotion letters both cases, four castling spellings, 12 piece '
             'letters, KQkq, side letter, e.p. square, move-number formula for n<=10000); equality/FEN use the same four '
             'components. The round trip of each concrete position follows from these with C02/C04 and is not enumerated.',
        design_ref='DESIGN.md §3 C16',
        note=TB + 'well-formed input text (A-WF).',
        technique='static: PACK layout extraction, TABLE inverse relations over source literals, static_assert witness'),
    'C17': dict(
        category='other',
        text='Partial: the printer\'s output language — derived by abstract interpretation of san()/san_without_check() over '
             'sequences of character classes from the source string tables — is included in the parser\'s accept language '
             '(castling literals with the suffix handling found in the code, union L(SAN_REGEX) compiled to an automaton by the '
             'checker); from()/to() validity in parser and printer filters (C15.R2); printer and parser select candidates by '
             'the same criteria from the same generator; piece/promotion letter tables invert; regex groups feed the right '
             'variables. Uniqueness of the printed SAN in each concrete position is not decided. A way of giving up outside the inclusion argument is evaluated on what san() prints per kind of move (constant evaluation of the string tests on the spelling and its regex groups); regex group roles are read from the literal.',
        design_ref='DESIGN.md §3 C17',
        note=TB + 'regex subset: classes, ?, groups, escapes (anything else => analysis broken).',
        technique='static: language inclusion on automata built from source literals, criteria COVER, TABLE inverses'),
    'C20': dict(
        category='proof',
        text='Full under real arithmetic with monotone rounding: abstract interpretation (interval x monotonicity-in-own-'
             'clock x linear bound c*clock) of calculateTime with its helpers inlined, over the whole input box of the '
             'quantifier, proves result >= 0, result <= 0.7*timeleft[side], non-decreasing in timeleft[side]; every '
             'integer operation/conversion carries a no-overflow obligation; consumer rule: the budget field is the '
             'allotment for the side to move and later definitions can only lower it. (R0) the clock words of `go` (wtime, btime, winc, binc, movestogo, movetime) fill the fields of that name and colour.',
        design_ref='DESIGN.md §3 C20',
        note=TB + 'floating expressions evaluated over the reals; transfer functions for exp/pow/min/max in checks/rules/arith.py.',
        technique='static: abstract interpretation (intervals, monotonicity, linear bounds) over the AST'),
}

NOT_APPLICABLE = {
}

PENDING = 'check not built yet in this round (static rules designed in DESIGN.md §3); not claimed until it is'


def main():
    props = [json.loads(l)['id'] for l in open(os.path.join(VERIF, 'properties.jsonl'))]
    checks = []
    for pid in props:
        if pid not in CHECKS:
            continue
        c = CHECKS[pid]
        checks.append({
            'property_id': pid,
            'quick_cmd': 'python3 checks/run.py %s --tier quick' % pid,
            'thorough_cmd': 'python3 checks/run.py %s --tier thorough' % pid,
            'evidence_file': '/verif/evidence/%s.json' % pid,
            'replay_cmd_template': 'python3 checks/run.py %s --replay {path}' % pid,
            'engine': 'cppfacts+rules',
            'level_claimed': {'category': c['category'], 'text': c['text'], 'design_ref': c['design_ref']},
            'level_note': c['note'],
            'technique': c['technique'],
        })
    na = []
    for pid in props:
        if pid in CHECKS:
            continue
        na.append({'property_id': pid, 'reason': NOT_APPLICABLE.get(pid, PENDING)})
    m = {
        'version': 1,
        'setup_cmd': 'sh tools/build.sh',
        'hooks': {
            'guard': 'CHESSPLUSPLUS_VERIF',
            'enable': 'no hooks are needed: every check parses /repo sources as they are (clang AST/CFG), nothing is compiled into the engine',
            'baseline_off_cmd': '(test -f /repo/_build/build.ninja || cmake -G Ninja -B /repo/_build -S /repo '
                                '-DFETCHCONTENT_SOURCE_DIR_GOOGLETEST=/usr/src/googletest -DFETCHCONTENT_FULLY_DISCONNECTED=ON) '
                                '&& cmake --build /repo/_build -j16 && ctest --test-dir /repo/_build -j8 --timeout 900',
            'source_commits': [],
            'add_only': True,
        },
        'engines': [{
            'name': 'cppfacts+rules',
            'path': 'tools/cppfacts/cppfacts.cc, checks/',
            'serves_properties': sorted(CHECKS),
            'kind_free_text': 'libTooling extractor (typed AST, CFG, evaluated constants) + Python rule engines '
                              '(dominance, path, effect, table, interval rules); static analysis only',
        }],
        'checks': checks,
        'not_applicable': na,
        'notes': 'Static analysis only (DESIGN.md). Exit 2 = analysis broken (anchor vanished / instance floor), never a pass.',
    }
    with open(os.path.join(VERIF, 'MANIFEST.json'), 'w') as f:
        json.dump(m, f, indent=1)
    print('MANIFEST.json: %d checks, %d not_applicable' % (len(checks), len(na)))


if __name__ == '__main__':
    main()
